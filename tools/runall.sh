#!/bin/bash
# run every quick (or thorough) check; exit 1 if any check does not exit 0
tier=${1:-quick}
bad=0
for p in C01 C02 C03 C04 C05 C06 C07 C08 C09 C10 C11 C12 C13 C14 C15 C16 C17 C18 C19 C20; do
  out=$(./check $p $tier 2>&1); rc=$?
  echo "$out" | tail -1
  if [ $rc -ne 0 ]; then bad=1; echo "$out" | grep -E "rule=|CHECK-ERROR" | head -5; fi
done
exit $bad
