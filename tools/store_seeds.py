#!/usr/bin/env python3
"""Run every check against every confirmed seeded change and store the seeds under /verif/seeded/<id>/."""
import json, os, shutil, subprocess, sys

NEEDS = {
 "C01": ("async fn declared WITHOUT a return type (`async fn f(..) {}`): the delegating body gets a trailing `;`, the future is dropped and the original never runs", "none (R-DELEG shape rule: statement in the body, value is not the call)"),
 "C02": ("`#[automock]` written below #[entrait] on an *impl block* is silently dropped from the re-emitted inherent impl (DRY refactor of the sub-attribute filter)", "mockall stub now also emits its marker for impl blocks; witness c02_impl_items::OtherStore with #[mockall::automock] + #[once::once]"),
 "C03": ("`no_deps` + FIRST parameter written `mut x` / `ref x` / `x @ pat`: binding mode kept in the trait method declaration (E0642)", "C16 enumeration also runs in no_deps mode; c01_patterns NdMut/NdRef/NdAt witnesses (module now also speaks for C03)"),
 "C04": ("deps bounded by the same trait path twice with different generic arguments (`Get<User> + Get<Order>`): bound de-duplication by path idents drops the second", "none (c04_bounds B5 `DepG<u8> + DepG<u16>`); later also c04_where_forms SameTraitTwice*"),
 "C05": ("concrete single-segment deps type + a type/const generic on the function: parameters pushed to the trait twice (E0403)", "none (c03_const_generics::CgConcrete)"),
 "C06": ("generic trait + `delegate_by = ref|Borrow`: call site names `dyn Trait` without the trait's generic arguments (E0107)", "adapter-hop rule loosened to accept the equivalent `<T as AsRef<dyn Trait>>::as_ref(&*self)` route (the seed's harmless half had raised a false alarm); more generic-trait witnesses"),
 "C07": ("dynamic delegation (`delegate_by = ref` + target trait) of an async_trait trait MIXING sync and async methods: `+ Sync` decided per method disagrees with the per-trait where clause (E0277)", "witnesses MixedDyn / MixedBor / MixedStatic in c07_inversion, MixedByRef / MixedByBorrow in c06_traits"),
 "C08": ("`pub unsafe extern \"C\" fn` in an entraited module: lookahead skips qualifiers in the wrong order, the function silently gets no trait method", "none (c08_modules::quals::q_unsafe_extern)"),
 "C09": ("entraited trait whose lifetime parameters carry bounds (`<'short, 'long: 'short>`): bounds dropped from trait and impl", "witness c09_shapes::Scoped"),
 "C10": ("cargo feature unimock ON + explicit `unimock = false` + CONCRETE deps: nested trait invocation falls back to the feature default and attaches unimock", "lattice extended with target `fnc` (fn with concrete deps): 360 points"),
 "C11": ("entraited MODULE + partial mock + unmatched call: `unmock_with` only emitted for single fns", "none (un-mock arm presence rule)"),
 "C12": ("`?Send` on an entraited trait WITH a static delegation target: the generated TraitImpl still demands Send futures", "none (C12 compares the delegation-target trait too; C07 target-output)"),
 "C13": ("a visibility written before the delegation-target name (`#[entrait(pub FooImpl, delegate_by = ref)] trait Foo`) is honoured, widening the target trait beyond the trait", "witness c13_vis::target_vis (4 cases)"),
 "C14": ("async fn taking an array of literal length >= 64 by value: delegating body boxes the future (`Box::pin(..).await`)", "new universal G-ZERO rule: no emitter of the generator may produce Box/Pin/alloc/… identifier literals (MIR literal inventory); witness RBigArray/RBigMod"),
 "C15": ("a destructuring / wildcard parameter FOLLOWED by a plain identifier: status accumulator dropped, later emitters panic", "none (C16 enumeration, pos-corpus panic rule)"),
 "C16": ("a generated name whose two fallbacks are both taken (`_`, `arg0`, `_arg0`): no retry beyond `_argN`", "enumeration extended with functions NAMED arg0 / arg1 / _arg0 (quick tier); original trigger is in the thorough tier (length 3)"),
 "C17": ("cargo feature ON + `entrait_export` + exactly one of export/unimock set explicitly: the other variant default is dropped", "C17 pairs with mock_api added (the difference is invisible without it); C10 lattice caught it already"),
 "C18": ("attribute on a parameter written as a NON-identifier pattern survives into generated signatures", "witnesses AttrPatternParams / NoDeps / Mod / impl block in c18_attrs"),
 "C19": ("`?Send` async fn in a scope that defines an item named `core`: the ?Send branch emits `core::future::Future` without leading `::`", "none (hostile crate h_fn / h_trait have ?Send + a `core` decoy module)"),
 "C20": ("module / impl block with >= 2 functions and >= 2 distinct deps bounds: bounds de-duplicated through a HashMap and emitted in iteration order", "none (G-HASH: into_values on a hash collection)"),
}


NEEDS2 = {
 "C01": ("the forwarded argument identifiers are re-spanned to the trait identifier: a macro_rules!-generated fn whose parameters come from two hygiene contexts with the SAME name gets the wrong argument forwarded (or E0425)", "witness c01_macro_hygiene (R-DELEG resolves operands by binding, shows [0, 1, 1]); FnModView accepts metavariable trait names; `//! twin: skip` header"),
 "C02": ("`const unsafe fn` / `async unsafe fn` (unsafe is not the first qualifier): struct-update overwrites the unsafety syn parsed itself", "witnesses ConstUnsafe / AsyncUnsafe / ConstUnsafeExtern in c02_unsafe_fn; qualifier combinations in the C03 matrix"),
 "C03": ("named generic deps + a second type parameter bounded ONLY in the where clause: every type where-predicate dropped from the method", "none (C03 matrix gtw classes, c02_fn_items::WhereClause)"),
 "C04": ("deps bounded by two or more SEPARATE where predicates (`where D: A, D: B`): only the first is kept", "none (c04_bounds::B9)"),
 "C05": ("concrete deps + async + `?Send`: the nested trait invocation does not carry the option, the trait demands Send futures", "witnesses CNoSend / CNoSendBorrowed in c05_concrete"),
 "C06": ("entraited trait method with `_` followed by a named parameter: status accumulator dropped, delegating-method emitter panics", "none (c15_trait_wild_param)"),
 "C07": ("`?Send` + static delegation target: TraitImpl<T> is generated with Send futures (future_send reset)", "none (C12 compares delegation-target traits; C07 target-output)"),
 "C08": ("module mode + `pub(in crate::path)`: the in-module trait becomes `pub(in super::crate::path)` (E0433)", "witness c08_modules::path_vis"),
 "C09": ("async trait method with a method-level where clause: rebuilt signature prints generics without the where clause", "witness c09_shapes::AsyncWhere"),
 "C10": ("`entrait_export` on a TRAIT: export fallback skipped, mock stays cfg(test)-gated", "none (lattice points trait x entrait_export)"),
 "C11": ("`no_deps` fn whose generated-name parameter precedes a plain one: unmock_with arguments listed plain-first", "witnesses UNoDepsMixed / UNoDepsMixed4 / UMixed4 in c11_unimock"),
 "C12": ("`#[async_trait(?Send)]` (attribute WITH arguments) is no longer recognised as async_trait", "witnesses AtArgsPlain / AtArgsRef; the rule now reads async_trait's own ?Send"),
 "C13": ("module mode, restricted requested visibility on a `pub mod`: the trait inside the module is made `pub`", "none (inner-vis rule of C13)"),
 "C14": ("explicit `delegate_by = Self` falls into the dyn-AsRef arm: trait object + vtable call", "none (c17_delegate_by_self: C06 R-PRED/R-DELEG and C14 fire)"),
 "C15": ("`#[entrait(FooImpl, delegate_by = Self)]`: `unreachable!` instead of the `Missing delegate_by` diagnostic", "none (neg/n_target_with_delegate_self + G-PANIC inventory)"),
 "C16": ("a pattern parameter BEFORE a parameter named like the function: `Iterator::all` short-circuits the rename", "none (exhaustive enumeration)"),
 "C17": ("`?Send` as the FIRST argument on a trait is parsed as a delegation-target name and rejected", "none (option-order permutations on traits)"),
 "C18": ("async method of an entraited trait: attributes (e.g. a disabled cfg) are not mirrored on the delegating method", "async methods with markers / cfg in c18_attrs::AttrTrait"),
 "C19": ("unimock `prefix=::entrait::__unimock` dropped for traits without mock_api: expansion needs a direct `unimock` dependency", "the hostile crate (which depends on entrait only) is now also compiled with the unimock feature"),
 "C20": ("thread_local scratch set of taken identifiers that is only cleared on the slow path: names depend on earlier invocations", "none (G-EFFECT thread-local)"),
}


def main():
    import os
    rnd = os.environ.get("SEED_ROUND", "1")
    global NEEDS
    if rnd == "2":
        NEEDS = NEEDS2
    elif rnd != "1":
        # later rounds keep their table beside this script: {"C01": [needs_to_manifest, strengthened], ..}
        NEEDS = json.load(open("/verif/tools/seed_needs_r%s.json" % rnd))
    base = subprocess.run(["git", "-C", "/repo", "log", "--format=%h", "-1"], capture_output=True, text=True).stdout.strip()
    ids = sys.argv[1:] or sorted(NEEDS)
    for sid in ids:
        root = "/tmp/seed" if rnd == "1" else "/tmp/seed%s" % rnd
        w = "%s/%s" % (root, sid)
        patch = os.path.join(w, "patch_rebased.diff") if os.path.exists(os.path.join(w, "patch_rebased.diff")) else os.path.join(w, "patch.diff")
        p = subprocess.run(["python3", "/verif/tools/seedrun.py", patch], capture_output=True, text=True)
        fired_line = [l for l in p.stdout.splitlines() if l.startswith("fired:")]
        fired = eval(fired_line[0].split("errors:")[0].replace("fired:", "").strip()) if fired_line else []
        errors = eval(fired_line[0].split("errors:")[1].strip()) if fired_line else ["?"]
        first = {}
        cur = None
        for l in p.stdout.splitlines():
            if " FIRES " in l:
                cur = l.split()[0]
            elif cur and l.strip().startswith("rule=") and cur not in first:
                first[cur] = l.strip()[:300]
        dst = "/verif/seeded/%s%s" % (sid, "" if rnd == "1" else "-r%s" % rnd)
        shutil.rmtree(dst, ignore_errors=True)
        os.makedirs(dst)
        shutil.copy(patch, os.path.join(dst, "patch.diff"))
        if patch.endswith("patch_rebased.diff"):
            shutil.copy(os.path.join(w, "patch.diff"), os.path.join(dst, "patch_original.diff"))
        shutil.copytree(os.path.join(w, "demo"), os.path.join(dst, "demo"), ignore=shutil.ignore_patterns("target", "expansions"))
        confirm = ""
        for log in (root + "/confirm.log", root + "/confirm2.log"):
            if os.path.exists(log):
                for l in open(log):
                    if l.startswith(sid + ":"):
                        confirm = l.strip()
        meta = {
            "property": sid,
            "breaks": open(root + "/%s.prop.txt" % sid).read().split("\n")[0],
            "needs_to_manifest": NEEDS[sid][0],
            "author": "fresh sub-agent given only the property text and a scratch worktree",
            "confirmed_by_me": {"worktree": w, "result": confirm,
                                "commands": ["cargo test --workspace --no-fail-fast --offline   # with the change: 40 passed",
                                             "demo (cargo test --offline or ./run.sh) with the change: fails; after `git checkout -- entrait_macros src`: passes"]},
            "applies_to_repo_commit": base,
            "checks_run": "python3 tools/seedrun.py seeded/%s/patch.diff   # git -C /repo apply, ./check C01..C20 quick, git -C /repo checkout -- ." % os.path.basename(dst),
            "quick_checks_that_fire": fired,
            "check_errors": errors,
            "target_property_check_fires": sid in fired,
            "first_report": first.get(sid) or (list(first.values())[0] if first else None),
            "machinery_strengthened_to_catch_it": NEEDS[sid][1],
        }
        with open(os.path.join(dst, "meta.json"), "w") as f:
            json.dump(meta, f, indent=1)
        print(sid, "fired:", fired, "errors:", errors)


if __name__ == "__main__":
    main()
