#!/usr/bin/env python3
"""Run every check against every confirmed seeded change and store the seeds under /verif/seeded/<id>/."""
import json, os, shutil, subprocess, sys

NEEDS = {
 "C01": ("async fn declared WITHOUT a return type (`async fn f(..) {}`): the delegating body gets a trailing `;`, the future is dropped and the original never runs", "none (R-DELEG shape rule: statement in the body, value is not the call)"),
 "C02": ("`#[automock]` written below #[entrait] on an *impl block* is silently dropped from the re-emitted inherent impl (DRY refactor of the sub-attribute filter)", "mockall stub now also emits its marker for impl blocks; witness c02_impl_items::OtherStore with #[mockall::automock] + #[once::once]"),
 "C03": ("`no_deps` + FIRST parameter written `mut x` / `ref x` / `x @ pat`: binding mode kept in the trait method declaration (E0642)", "C16 enumeration also runs in no_deps mode; c01_patterns NdMut/NdRef/NdAt witnesses (module now also speaks for C03)"),
 "C04": ("deps bounded by the same trait path twice with different generic arguments (`Get<User> + Get<Order>`): bound de-duplication by path idents drops the second", "none (c04_bounds B5 `DepG<u8> + DepG<u16>`); later also c04_where_forms SameTraitTwice*"),
 "C05": ("concrete single-segment deps type + a type/const generic on the function: parameters pushed to the trait twice (E0403)", "none (c03_const_generics::CgConcrete)"),
 "C06": ("generic trait + `delegate_by = ref|Borrow`: call site names `dyn Trait` without the trait's generic arguments (E0107)", "adapter-hop rule loosened to accept the equivalent `<T as AsRef<dyn Trait>>::as_ref(&*self)` route (the seed's harmless half had raised a false alarm); more generic-trait witnesses"),
 "C07": ("dynamic delegation (`delegate_by = ref` + target trait) of an async_trait trait MIXING sync and async methods: `+ Sync` decided per method disagrees with the per-trait where clause (E0277)", "witnesses MixedDyn / MixedBor / MixedStatic in c07_inversion, MixedByRef / MixedByBorrow in c06_traits"),
 "C08": ("`pub unsafe extern \"C\" fn` in an entraited module: lookahead skips qualifiers in the wrong order, the function silently gets no trait method", "none (c08_modules::quals::q_unsafe_extern)"),
 "C09": ("entraited trait whose lifetime parameters carry bounds (`<'short, 'long: 'short>`): bounds dropped from trait and impl", "witness c09_shapes::Scoped"),
 "C10": ("cargo feature unimock ON + explicit `unimock = false` + CONCRETE deps: nested trait invocation falls back to the feature default and attaches unimock", "lattice extended with target `fnc` (fn with concrete deps): 360 points"),
 "C11": ("entraited MODULE + partial mock + unmatched call: `unmock_with` only emitted for single fns", "none (un-mock arm presence rule)"),
 "C12": ("`?Send` on an entraited trait WITH a static delegation target: the generated TraitImpl still demands Send futures", "none (C12 compares the delegation-target trait too; C07 target-output)"),
 "C13": ("a visibility written before the delegation-target name (`#[entrait(pub FooImpl, delegate_by = ref)] trait Foo`) is honoured, widening the target trait beyond the trait", "witness c13_vis::target_vis (4 cases)"),
 "C14": ("async fn taking an array of literal length >= 64 by value: delegating body boxes the future (`Box::pin(..).await`)", "new universal G-ZERO rule: no emitter of the generator may produce Box/Pin/alloc/… identifier literals (MIR literal inventory); witness RBigArray/RBigMod"),
 "C15": ("a destructuring / wildcard parameter FOLLOWED by a plain identifier: status accumulator dropped, later emitters panic", "none (C16 enumeration, pos-corpus panic rule)"),
 "C16": ("a generated name whose two fallbacks are both taken (`_`, `arg0`, `_arg0`): no retry beyond `_argN`", "enumeration extended with functions NAMED arg0 / arg1 / _arg0 (quick tier); original trigger is in the thorough tier (length 3)"),
 "C17": ("cargo feature ON + `entrait_export` + exactly one of export/unimock set explicitly: the other variant default is dropped", "C17 pairs with mock_api added (the difference is invisible without it); C10 lattice caught it already"),
 "C18": ("attribute on a parameter written as a NON-identifier pattern survives into generated signatures", "witnesses AttrPatternParams / NoDeps / Mod / impl block in c18_attrs"),
 "C19": ("`?Send` async fn in a scope that defines an item named `core`: the ?Send branch emits `core::future::Future` without leading `::`", "none (hostile crate h_fn / h_trait have ?Send + a `core` decoy module)"),
 "C20": ("module / impl block with >= 2 functions and >= 2 distinct deps bounds: bounds de-duplicated through a HashMap and emitted in iteration order", "none (G-HASH: into_values on a hash collection)"),
}


def main():
    base = subprocess.run(["git", "-C", "/repo", "log", "--format=%h", "-1"], capture_output=True, text=True).stdout.strip()
    ids = sys.argv[1:] or sorted(NEEDS)
    for sid in ids:
        w = "/tmp/seed/%s" % sid
        patch = os.path.join(w, "patch_rebased.diff") if os.path.exists(os.path.join(w, "patch_rebased.diff")) else os.path.join(w, "patch.diff")
        p = subprocess.run(["python3", "/verif/tools/seedrun.py", patch], capture_output=True, text=True)
        fired_line = [l for l in p.stdout.splitlines() if l.startswith("fired:")]
        fired = eval(fired_line[0].split("errors:")[0].replace("fired:", "").strip()) if fired_line else []
        errors = eval(fired_line[0].split("errors:")[1].strip()) if fired_line else ["?"]
        first = {}
        cur = None
        for l in p.stdout.splitlines():
            if " FIRES " in l:
                cur = l.split()[0]
            elif cur and l.strip().startswith("rule=") and cur not in first:
                first[cur] = l.strip()[:300]
        dst = "/verif/seeded/%s" % sid
        shutil.rmtree(dst, ignore_errors=True)
        os.makedirs(dst)
        shutil.copy(patch, os.path.join(dst, "patch.diff"))
        if patch.endswith("patch_rebased.diff"):
            shutil.copy(os.path.join(w, "patch.diff"), os.path.join(dst, "patch_original.diff"))
        shutil.copytree(os.path.join(w, "demo"), os.path.join(dst, "demo"), ignore=shutil.ignore_patterns("target", "expansions"))
        confirm = ""
        for log in ("/tmp/seed/confirm.log", "/tmp/seed/confirm2.log"):
            if os.path.exists(log):
                for l in open(log):
                    if l.startswith(sid + ":"):
                        confirm = l.strip()
        meta = {
            "property": sid,
            "breaks": open("/tmp/seed/%s.prop.txt" % sid).read().split("\n")[0],
            "needs_to_manifest": NEEDS[sid][0],
            "author": "fresh sub-agent given only the property text and a scratch worktree",
            "confirmed_by_me": {"worktree": w, "result": confirm,
                                "commands": ["cargo test --workspace --no-fail-fast --offline   # with the change: 40 passed",
                                             "demo (cargo test --offline or ./run.sh) with the change: fails; after `git checkout -- entrait_macros src`: passes"]},
            "applies_to_repo_commit": base,
            "checks_run": "python3 tools/seedrun.py seeded/%s/patch.diff   # git -C /repo apply, ./check C01..C20 quick, git -C /repo checkout -- ." % sid,
            "quick_checks_that_fire": fired,
            "check_errors": errors,
            "target_property_check_fires": sid in fired,
            "first_report": first.get(sid) or (list(first.values())[0] if first else None),
            "machinery_strengthened_to_catch_it": NEEDS[sid][1],
        }
        with open(os.path.join(dst, "meta.json"), "w") as f:
            json.dump(meta, f, indent=1)
        print(sid, "fired:", fired, "errors:", errors)


if __name__ == "__main__":
    main()
