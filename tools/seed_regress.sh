#!/bin/bash
# Re-run, for every stored seeded change, the check of the property it breaks (quick tier) and
# report the ones that are no longer caught. usage: tools/seed_regress.sh [dir-glob]
cd /verif
miss=0
for d in seeded/${1:-*}/; do
  id=$(basename $d); prop=${id%%-*}
  out=$(python3 tools/seedrun.py $d/patch.diff $prop 2>&1 | grep -E "^fired:|does not apply|refusing")
  if grep -q '"neutralised_by"' $d/meta.json 2>/dev/null; then
    # a later fix: made this change behaviour-preserving: every check must stay silent on it
    case "$out" in
      "fired: [] errors: []") echo "$id silent (neutralised, as expected)";;
      *) echo "$id NEUTRALISED SEED RAISES AN ALARM: $out"; miss=$((miss+1));;
    esac
    continue
  fi
  case "$out" in
    *"'$prop'"*" errors: []") echo "$id caught";;
    *) echo "$id NOT CAUGHT: $out"; miss=$((miss+1));;
  esac
done
echo "missed: $miss"
exit $miss
