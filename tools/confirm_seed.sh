#!/bin/bash
# usage: confirm_seed.sh <ID>  — confirm a sub-agent's seeded change in its own scratch worktree:
#  suite passes with the change; demo fails with it; demo passes without it.
id=$1
w=${SEEDROOT:-/tmp/seed}/$id
export CARGO_NET_OFFLINE=true CARGO_TARGET_DIR=$w/target
cd $w || exit 2
git checkout -q -- entrait_macros src 2>/dev/null
git apply $w/patch.diff || { echo "$id: patch does not apply"; exit 2; }
suite=$(cargo test --workspace --no-fail-fast --offline 2>&1 | grep -E "^test result" | awk '{p+=$4; f+=$6} END {print p" passed "f" failed"}')
rundemo() {
  cd $w/demo
  if [ -x ./run.sh ]; then CARGO_TARGET_DIR=$w/demo/target ./run.sh; return $?; fi
  CARGO_TARGET_DIR=$w/demo/target cargo test --offline --no-fail-fast
}
rundemo >$w/demo_with.log 2>&1; with=$?
cd $w && git checkout -q -- entrait_macros src
rundemo >$w/demo_without.log 2>&1; without=$?
cd $w && git apply $w/patch.diff
echo "$id: suite_with_change=[$suite] demo_with_change_exit=$with demo_without_change_exit=$without"
rm -rf $w/target $w/demo/target $w/demo/expansions
