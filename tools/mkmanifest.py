#!/usr/bin/env python3
"""Generate /verif/MANIFEST.json from the table below (keeps the file valid and consistent)."""
import json
import os

VERIF = os.path.dirname(os.path.dirname(os.path.abspath(__file__)))

W = "type-checked-expansion queries (rustc_private driver: resolved HIR/MIR, predicates_of, visibility) over a witness corpus expanded by the macro built from /repo"

CHECKS = {
    "C01": ("translation_validation",
            "R-DELEG: every generated method body is one resolved call of its own original function, operands = the method's parameters in order, awaited iff async; decided for all argument values per witness (122 fn/mod expansions x 2-4 configurations).",
            "bounded on macro inputs (witness matrix), exact on runtime values; trusts rustc name resolution/type checking",
            "static analysis of the type-checked expansion (HIR callee/operand resolution + MIR cross-check)", "DESIGN.md §3 C01"),
    "C04": ("translation_validation",
            "R-PRED: predicates_of(generated impl) == fixed Sync+'static(+Send by value) ∪ declared deps bounds ∪ lifted predicates, as sets of resolved predicates; self type T vs Impl<T> per mock settings. Set equality is the iff over all application types.",
            "bounded on macro inputs; exact on application types; implicit Sized ignored; regions erased",
            "static analysis: resolved predicate-set comparison", "DESIGN.md §3 C04"),
    "C05": ("translation_validation",
            "concrete-deps expansions have exactly one non-generic impl for C (R-DELEG to the fn) and one impl for Impl<T> with predicates {T: Sync, T: 'static, T: Trait} forwarding to <T as Trait>::m; no blanket impl",
            "bounded on concrete type shapes in the corpus", "static analysis: impl inventory + predicate sets + R-DELEG", "DESIGN.md §3 C05"),
    "C06": ("translation_validation",
            "trait-input expansions without delegation target: R-PRED (fixed ∪ provider bound per selector ∪ trait where-preds) and R-DELEG through exactly the adapter hops of the selected kind (Impl->T, T->dyn Trait), virtual call for ref/Borrow",
            "bounded on trait shapes in the corpus", "static analysis: predicate sets + adapter-hop/callee resolution", "DESIGN.md §3 C06"),
    "C07": ("translation_validation",
            "front half: callee is TraitImpl::<T>::m on the projection <T as Selector<T>>::Target (static) or a virtual call on dyn TraitImpl<T> from AsRef/Borrow(&*self) (dynamic), operands (self, args..); back half: callee is the inherent fn of the same block with deps = Impl<T>; shapes of generated TraitImpl/Selector traits; R-PRED on the block impl",
            "bounded on corpus; competing targets are present in the corpus and can only be reached through the projection", "static analysis: resolved callee generic arguments + predicate sets", "DESIGN.md §3 C07"),
    "C08": ("translation_validation",
            "ordered trait method list == ordered list of Fn items whose parent is the module and whose visibility span is non-empty (rustc's item tree as oracle); re-export exists with requested visibility; each method reaches its own fn",
            "bounded on module bodies in the corpus", "static analysis: item-tree oracle vs generated trait", "DESIGN.md §3 C08"),
    "C12": ("translation_validation",
            "generated trait method of every async original is a plain fn whose RPITIT has explicit bounds {Future, Output == R} ∪ {Send iff no ?Send}; with async_trait: trait + impls inside nested async_trait expansion, boxed Send future",
            "bounded on corpus; R read from the original future's own Output projection", "static analysis: explicit_item_bounds of the opaque return type", "DESIGN.md §3 C12"),
    "C13": ("translation_validation",
            "tcx.visibility(trait) (fn) / visibility of the re-export entry in the parent (mod) == requested visibility resolved at the attribute scope; TraitImpl visibility == trait visibility. Equality excludes wider and narrower, no negative programs needed.",
            "bounded on the visibility matrix (6 x 3 fn, 3 x 2 mod, 4 x 3 trait)", "static analysis: resolved visibility comparison", "DESIGN.md §3 C13"),
    "C14": ("translation_validation",
            "structural clause only: no alloc callee, no virtual call, no dyn Self callee, no unsizing, no Box/Rc/Arc/Vec/String/dyn types beyond the user's signature in any generated body/signature of static-delegation expansions",
            "allocation counts are not measured; the structural fact that makes them equal is decided", "static analysis: callee/adjustment/type inventory of generated bodies", "DESIGN.md §3 C14"),
}

NOT_YET = {
}

NA = {
}


def main():
    checks = []
    for pid in sorted(CHECKS):
        level, text, note, tech, ref = CHECKS[pid]
        checks.append({
            "property_id": pid,
            "quick_cmd": "./check %s quick" % pid,
            "thorough_cmd": "./check %s thorough" % pid,
            "evidence_file": "/verif/evidence/%s.json" % pid,
            "replay_cmd_template": "./check %s quick  # replay file {path} names rule + construct" % pid,
            "engine": "edrv+vlib",
            "level_claimed": {"category": level, "text": text, "design_ref": ref},
            "level_note": note,
            "technique": tech,
        })
    props = [json.loads(l)["id"] for l in open(os.path.join(VERIF, "properties.jsonl"))]
    na = []
    for pid in props:
        if pid in CHECKS:
            continue
        na.append({"property_id": pid, "reason": NA.get(pid, NOT_YET.get(pid, "check not built yet (work in progress; see DESIGN.md §3)"))})
    m = {
        "version": 1,
        "setup_cmd": "./setup.sh",
        "hooks": {
            "guard": "audunhalland_entrait_verif",
            "enable": "no hook is needed: the checks read /repo's sources and the compiler's own tables; nothing in /repo is cfg-guarded",
            "baseline_off_cmd": "cd /repo && cargo test --workspace --no-fail-fast --offline",
            "source_commits": [],
            "add_only": True,
        },
        "engines": [
            {"name": "edrv", "path": "/verif/tools/edrv", "serves_properties": sorted(CHECKS),
             "kind_free_text": "rustc_private driver (nightly) dumping type-checked HIR/MIR facts of witness crates (wit mode) and of entrait_macros (gen mode)"},
            {"name": "vlib", "path": "/verif/vlib", "serves_properties": sorted(CHECKS),
             "kind_free_text": "python rule engine over the fact files: R-DELEG, R-PRED, visibility, futures, zero-cost, module oracle"},
        ],
        "checks": checks,
        "not_applicable": na,
        "notes": "Static analysis only: no generated program is ever executed and the repository's test-suite is never run by a check. " + W,
    }
    with open(os.path.join(VERIF, "MANIFEST.json"), "w") as f:
        json.dump(m, f, indent=1)
        f.write("\n")


if __name__ == "__main__":
    main()
