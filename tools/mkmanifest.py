#!/usr/bin/env python3
"""Generate /verif/MANIFEST.json from the table below (keeps the file valid and consistent)."""
import json
import os

VERIF = os.path.dirname(os.path.dirname(os.path.abspath(__file__)))

W = "type-checked-expansion queries (rustc_private driver: resolved HIR/MIR, predicates_of, visibility) over a witness corpus expanded by the macro built from /repo"

CHECKS = {
    "C01": ("translation_validation",
            "R-DELEG: every generated method body is one resolved call of its own original function, operands = the method's parameters in order, awaited iff async; decided for all argument values per witness (122 fn/mod expansions x 2-4 configurations).",
            "bounded on macro inputs (witness matrix), exact on runtime values; trusts rustc name resolution/type checking",
            "static analysis of the type-checked expansion (HIR callee/operand resolution + MIR cross-check)", "DESIGN.md §3 C01"),
    "C04": ("translation_validation",
            "R-PRED: predicates_of(generated impl) == fixed Sync+'static(+Send by value) ∪ declared deps bounds ∪ lifted predicates, as sets of resolved predicates; self type T vs Impl<T> per mock settings. Set equality is the iff over all application types.",
            "bounded on macro inputs; exact on application types; implicit Sized ignored; regions erased",
            "static analysis: resolved predicate-set comparison", "DESIGN.md §3 C04"),
    "C05": ("translation_validation",
            "concrete-deps expansions have exactly one non-generic impl for C (R-DELEG to the fn) and one impl for Impl<T> with predicates {T: Sync, T: 'static, T: Trait} forwarding to <T as Trait>::m; no blanket impl",
            "bounded on concrete type shapes in the corpus", "static analysis: impl inventory + predicate sets + R-DELEG", "DESIGN.md §3 C05"),
    "C06": ("translation_validation",
            "trait-input expansions without delegation target: R-PRED (fixed ∪ provider bound per selector ∪ trait where-preds) and R-DELEG through exactly the adapter hops of the selected kind (Impl->T, T->dyn Trait), virtual call for ref/Borrow",
            "bounded on trait shapes in the corpus", "static analysis: predicate sets + adapter-hop/callee resolution", "DESIGN.md §3 C06"),
    "C07": ("translation_validation",
            "front half: callee is TraitImpl::<T>::m on the projection <T as Selector<T>>::Target (static) or a virtual call on dyn TraitImpl<T> from AsRef/Borrow(&*self) (dynamic), operands (self, args..); back half: callee is the inherent fn of the same block with deps = Impl<T>; shapes of generated TraitImpl/Selector traits; R-PRED on the block impl",
            "bounded on corpus; competing targets are present in the corpus and can only be reached through the projection", "static analysis: resolved callee generic arguments + predicate sets", "DESIGN.md §3 C07"),
    "C08": ("translation_validation",
            "ordered trait method list == ordered list of Fn items whose parent is the module and whose visibility span is non-empty (rustc's item tree as oracle); re-export exists with requested visibility; each method reaches its own fn",
            "bounded on module bodies in the corpus", "static analysis: item-tree oracle vs generated trait", "DESIGN.md §3 C08"),
    "C12": ("translation_validation",
            "generated trait method of every async original is a plain fn whose RPITIT has explicit bounds {Future, Output == R} ∪ {Send iff no ?Send}; with async_trait: trait + impls inside nested async_trait expansion, boxed Send future",
            "bounded on corpus; R read from the original future's own Output projection", "static analysis: explicit_item_bounds of the opaque return type", "DESIGN.md §3 C12"),
    "C13": ("translation_validation",
            "tcx.visibility(trait) (fn) / visibility of the re-export entry in the parent (mod) == requested visibility resolved at the attribute scope; TraitImpl visibility == trait visibility. Equality excludes wider and narrower, no negative programs needed.",
            "bounded on the visibility matrix (6 x 3 fn, 3 x 2 mod, 4 x 3 trait)", "static analysis: resolved visibility comparison", "DESIGN.md §3 C13"),
    "C14": ("translation_validation",
            "structural clause only: no alloc callee, no virtual call, no dyn Self callee, no unsizing, no Box/Rc/Arc/Vec/String/dyn types beyond the user's signature in any generated body/signature of static-delegation expansions",
            "allocation counts are not measured; the structural fact that makes them equal is decided", "static analysis: callee/adjustment/type inventory of generated bodies", "DESIGN.md §3 C14"),
    "C02": ("translation_validation",
            "twin diff over the whole corpus: every item of the attribute-stripped twin occurs token-identical and in order in the real expansion; entraited fn unchanged with trait+impl after it; module items are an identical prefix, generated trait+impl at the end inside, `use` after; impl-block items identical and in order inside an inherent impl, trait impl beside",
            "bounded on corpus items; same rustc pretty printer on both sides; spans/whitespace not compared",
            "static analysis: token-tree comparison of -Zunpretty=expanded output against an attribute-stripped twin", "DESIGN.md §3 C02"),
    "C03": ("translation_validation",
            "bounded signature matrix: compiles incl. borrowck; fn-pointer coercion witnesses (fn and trait method coerced to one pointer type); fn_sig(trait method) == fn_sig(original) with deps replaced by the receiver; generic-parameter partition (trait xor method)",
            "totality over the signature grammar is NOT claimed; bounded matrix + uniform rule over all corpus expansions",
            "static analysis: compile-pass type-identity witnesses + resolved fn_sig comparison", "DESIGN.md §3 C03"),
    "C09": ("translation_validation",
            "twin diff restricted to entraited traits: attributes (subsequence, additions only mock derivations), header tokens, item list, per-method attributes/signature/default body, with the documented async rewrite normalised",
            "bounded on corpus traits; two recorded known findings (associated types, default bodies)",
            "static analysis: structural token-tree comparison against the trait as written", "DESIGN.md §3 C09"),
    "C10": ("exploration",
            "the full lattice the property names (252 option points x 2-4 configurations), observed statically per point: presence of `impl Trait for unimock::Unimock`, of the mockall marker, and the impl target; oracle transcribed from the property text",
            "exhaustive over the named lattice; mockall is a 20-line stub proc-macro that emits a marker item",
            "static analysis: exhaustive enumeration + impl/def inventory from the type-checked expansion", "DESIGN.md §3 C10"),
    "C11": ("translation_validation",
            "type-checked HIR of every unimock-generated `impl Trait for Unimock`: eval::<MockFn>(self, (params in order)); MockFn is the struct named by mock_api; Unmock arm iff generic deps or no_deps, calling the original (resolved DefId) with (self, tuple bindings by position)",
            "unimock's runtime matching is outside this repository and not analysed",
            "static analysis: resolved callee/operand structure of the mock impl", "DESIGN.md §3 C11"),
    "C15": ("other",
            "(a) inventory of all panic-capable operations in the MIR of entrait_macros; constant identifier/lifetime literals and insert(0) machine-discharged, the rest matched against a reviewed table keyed by (callee, type arguments | message) with counts; (b) 48 negative witnesses: every misuse gets a diagnostic (documented ones their message at the offending token), never a proc-macro panic; (c) no positive witness panics",
            "reviewed reasons in rules/c15_discharge.json are trusted; syn's parser is trusted not to panic",
            "static analysis: MIR panic-site audit + compile-fail witnesses (rustc diagnostics, no execution)", "DESIGN.md §3 C15"),
    "C16": ("exploration",
            "exhaustive over all pattern lists of length 1..2 (quick) / 1..3 (thorough, also inside modules) over a 13-symbol alphabet: compiles, generated names plain/distinct/not the fn name, naming clause, positional forwarding (R-DELEG)",
            "small-scope: lists beyond length 3 are not covered",
            "static analysis: exhaustive small-scope enumeration + resolved parameter names/operands", "DESIGN.md §3 C16"),
    "C17": ("exploration",
            "metamorphic pairs of attribute lists the property declares equivalent (bare vs =true, =false vs omitted, all permutations of option subsets, macro-variant shorthands, feature fallback) must expand to equal token streams; acceptance of every option x target against the option table parsed from src/lib.rs docs",
            "cross-feature clause decided as same-feature pair + C10 lattice; one known finding (no_deps accepted on mod)",
            "static analysis: token-stream equality of sibling expansions + diagnostics table cross-check", "DESIGN.md §3 C17"),
    "C18": ("translation_validation",
            "over the twin-paired corpus: no user attribute copied onto generated traits/impls, no parameter attributes in generated signatures, trait-method attributes mirrored on delegating methods, marker attributes and a foreign attribute macro occur exactly once, cfg-disabled trait methods absent; cfg-disabled fns in modules/impl blocks (two known findings)",
            "bounded on attribute placements in the corpus", "static analysis: token-tree attribute inventory of expansions", "DESIGN.md §3 C18"),
    "C19": ("translation_validation",
            "G: complete inventory of identifier literals the generator can emit (from MIR constants), each classified (keyword / reserved / crate root / ::core path segment with its parent); W: #![no_std] hostile crate with decoys shadowing every referenced name and traits named Sync/Send/Future/AsRef/Impl — compiles, and all resolved predicates/bounds/callees are the ::core / implementation definitions",
            "the literal-inventory rule is a necessary condition; the hostile crate is the behavioural verdict on its matrix",
            "static analysis: MIR literal inventory + resolved-path checks on a hostile witness crate", "DESIGN.md §3 C19"),
    "C20": ("other",
            "effect audit of every MIR body of entrait_macros: no static/TLS access, no env/time/fs/net/process/thread/sync/io callee (stdout only in the shared dispatcher), no ptr-to-int casts, HashSet/HashMap only through membership operations, entry points share one dispatcher with capture-free closures, no build script, deps limited to syn/quote/proc-macro2; positive controls must fire",
            "determinism of syn/quote/proc_macro2/std/rustc trusted", "static analysis: MIR effect / hash-order audit", "DESIGN.md §3 C20"),
}

NOT_YET = {
}

NA = {
}


def main():
    checks = []
    for pid in sorted(CHECKS):
        level, text, note, tech, ref = CHECKS[pid]
        checks.append({
            "property_id": pid,
            "quick_cmd": "./check %s quick" % pid,
            "thorough_cmd": "./check %s thorough" % pid,
            "evidence_file": "/verif/evidence/%s.json" % pid,
            "replay_cmd_template": "./check %s quick  # replay file {path} names rule + construct" % pid,
            "engine": "edrv+vlib",
            "level_claimed": {"category": level, "text": text, "design_ref": ref},
            "level_note": note,
            "technique": tech,
        })
    props = [json.loads(l)["id"] for l in open(os.path.join(VERIF, "properties.jsonl"))]
    na = []
    for pid in props:
        if pid in CHECKS:
            continue
        na.append({"property_id": pid, "reason": NA.get(pid, NOT_YET.get(pid, "check not built yet (work in progress; see DESIGN.md §3)"))})
    m = {
        "version": 1,
        "setup_cmd": "./setup.sh",
        "hooks": {
            "guard": "audunhalland_entrait_verif",
            "enable": "no hook is needed: the checks read /repo's sources and the compiler's own tables; nothing in /repo is cfg-guarded",
            "baseline_off_cmd": "cd /repo && cargo test --workspace --no-fail-fast --offline",
            "source_commits": [],
            "add_only": True,
        },
        "engines": [
            {"name": "edrv", "path": "/verif/tools/edrv", "serves_properties": sorted(CHECKS),
             "kind_free_text": "rustc_private driver (nightly) dumping type-checked HIR/MIR facts of witness crates (wit mode) and of entrait_macros (gen mode)"},
            {"name": "vlib", "path": "/verif/vlib", "serves_properties": sorted(CHECKS),
             "kind_free_text": "python rule engine over the fact files: R-DELEG, R-PRED, visibility, futures, zero-cost, module oracle"},
        ],
        "checks": checks,
        "not_applicable": na,
        "notes": "Static analysis only: no generated program is ever executed and the repository's test-suite is never run by a check. " + W,
    }
    with open(os.path.join(VERIF, "MANIFEST.json"), "w") as f:
        json.dump(m, f, indent=1)
        f.write("\n")


if __name__ == "__main__":
    main()
