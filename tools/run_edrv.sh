#!/bin/bash
# usage: run_edrv.sh <crate-dir> <target-dir> <out-dir> [cargo args...]
set -u
dir=$1; tgt=$2; out=$3; shift 3
mkdir -p "$out"
export LD_LIBRARY_PATH=$(rustc +nightly --print sysroot)/lib
export EDRV_OUT="$out"
export RUSTFLAGS="${EDRV_RUSTFLAGS:--Zmir-opt-level=0 -Awarnings}"
export RUSTC_WORKSPACE_WRAPPER=/verif/tools/edrv/target/release/edrv
export CARGO_TARGET_DIR="$tgt"
export CARGO_NET_OFFLINE=true
cd "$dir" && exec cargo +nightly check --offline "$@"
