//! Types, generic arguments, predicates → JSON trees.

use crate::json::J;
use rustc_hir::def_id::DefId;
use rustc_middle::ty::{self, GenericArgKind, Ty, TyCtxt};

pub fn path(tcx: TyCtxt<'_>, did: DefId) -> String {
    ty::print::with_no_visible_paths!(ty::print::with_no_trimmed_paths!(ty::print::with_crate_prefix!(
        tcx.def_path_str(did)
    )))
}

pub fn region(r: ty::Region<'_>) -> J {
    J::s(format!("{:?}", r))
}

pub fn garg<'tcx>(tcx: TyCtxt<'tcx>, a: ty::GenericArg<'tcx>) -> J {
    match a.kind() {
        GenericArgKind::Type(t) => ty(tcx, t),
        GenericArgKind::Lifetime(r) => J::obj(vec![("t", J::s("region")), ("s", region(r))]),
        GenericArgKind::Const(c) => J::obj(vec![("t", J::s("const")), ("s", J::s(format!("{:?}", c)))]),
    }
}

pub fn gargs<'tcx>(tcx: TyCtxt<'tcx>, args: &[ty::GenericArg<'tcx>]) -> J {
    J::Arr(args.iter().map(|a| garg(tcx, *a)).collect())
}

pub fn ty<'tcx>(tcx: TyCtxt<'tcx>, t: Ty<'tcx>) -> J {
    use ty::TyKind as K;
    let prim = |s: &str| J::obj(vec![("t", J::s("prim")), ("name", J::s(s))]);
    match t.kind() {
        K::Bool => prim("bool"),
        K::Char => prim("char"),
        K::Str => prim("str"),
        K::Never => prim("!"),
        K::Int(i) => prim(i.name_str()),
        K::Uint(i) => prim(i.name_str()),
        K::Float(i) => prim(i.name_str()),
        K::Param(p) => J::obj(vec![
            ("t", J::s("param")),
            ("name", J::s(p.name.as_str())),
            ("index", J::Num(p.index as i64)),
        ]),
        K::Adt(def, args) => J::obj(vec![
            ("t", J::s("adt")),
            ("path", J::s(path(tcx, def.did()))),
            ("args", gargs(tcx, args)),
        ]),
        K::Ref(r, inner, m) => J::obj(vec![
            ("t", J::s("ref")),
            ("mut", J::Bool(m.is_mut())),
            ("region", region(*r)),
            ("inner", ty(tcx, *inner)),
        ]),
        K::RawPtr(inner, m) => J::obj(vec![
            ("t", J::s("rawptr")),
            ("mut", J::Bool(m.is_mut())),
            ("inner", ty(tcx, *inner)),
        ]),
        K::Tuple(ts) => J::obj(vec![
            ("t", J::s("tuple")),
            ("elems", J::Arr(ts.iter().map(|x| ty(tcx, x)).collect())),
        ]),
        K::Slice(inner) => J::obj(vec![("t", J::s("slice")), ("inner", ty(tcx, *inner))]),
        K::Array(inner, c) => J::obj(vec![
            ("t", J::s("array")),
            ("inner", ty(tcx, *inner)),
            ("len", J::s(format!("{:?}", c))),
        ]),
        K::Alias(alias) => {
            let (kind, def_id) = match alias.kind {
                ty::AliasTyKind::Projection { def_id } => ("projection", def_id),
                ty::AliasTyKind::Inherent { def_id } => ("inherent", def_id),
                ty::AliasTyKind::Opaque { def_id } => ("opaque", def_id),
                ty::AliasTyKind::Free { def_id } => ("free", def_id),
            };
            let mut o = J::obj(vec![
                ("t", J::s("alias")),
                ("kind", J::s(kind)),
                ("def", J::s(path(tcx, def_id))),
                ("args", gargs(tcx, alias.args)),
            ]);
            if kind == "projection" {
                let tr = tcx.parent(def_id);
                o.push("trait", J::s(path(tcx, tr)));
                o.push("assoc", J::s(crate::tyj::name_of(tcx, def_id)));
                // is this the synthetic associated type of a return-position impl trait in trait?
                o.push("rpitit", J::Bool(tcx.is_impl_trait_in_trait(def_id)));
            }
            o
        }
        K::Dynamic(preds, r) => {
            let mut principal = J::Null;
            let mut autos = vec![];
            let mut projs = vec![];
            for p in preds.iter() {
                match p.skip_binder() {
                    ty::ExistentialPredicate::Trait(tr) => {
                        principal = J::obj(vec![
                            ("trait", J::s(path(tcx, tr.def_id))),
                            ("args", gargs(tcx, tr.args)),
                        ]);
                    }
                    ty::ExistentialPredicate::AutoTrait(d) => autos.push(J::s(path(tcx, d))),
                    ty::ExistentialPredicate::Projection(pr) => {
                        projs.push(J::s(format!("{:?}", pr)));
                    }
                }
            }
            J::obj(vec![
                ("t", J::s("dyn")),
                ("principal", principal),
                ("autos", J::Arr(autos)),
                ("projections", J::Arr(projs)),
                ("region", region(*r)),
            ])
        }
        K::FnDef(d, args) => J::obj(vec![
            ("t", J::s("fndef")),
            ("def", J::s(path(tcx, (*d).into()))),
            ("args", gargs(tcx, args)),
        ]),
        K::FnPtr(..) => J::obj(vec![("t", J::s("fnptr")), ("s", J::s(format!("{:?}", t)))]),
        K::Closure(d, _) => J::obj(vec![("t", J::s("closure")), ("def", J::s(path(tcx, (*d).into())))]),
        K::Coroutine(d, _) => J::obj(vec![("t", J::s("coroutine")), ("def", J::s(path(tcx, (*d).into())))]),
        K::CoroutineClosure(d, _) => {
            J::obj(vec![("t", J::s("coroutine_closure")), ("def", J::s(path(tcx, (*d).into())))])
        }
        K::Bound(..) => J::obj(vec![("t", J::s("bound")), ("s", J::s(format!("{:?}", t)))]),
        _ => J::obj(vec![("t", J::s("other")), ("s", J::s(format!("{:?}", t)))]),
    }
}

/// Full-path display string of a type (for humans and for coarse "mentions X" queries).
pub fn ty_str<'tcx>(t: Ty<'tcx>) -> String {
    ty::print::with_no_visible_paths!(ty::print::with_no_trimmed_paths!(format!("{}", t)))
}

pub fn clause<'tcx>(tcx: TyCtxt<'tcx>, c: ty::Clause<'tcx>) -> J {
    let k = c.kind();
    let nbound = k.bound_vars().len();
    let mut o = match k.skip_binder() {
        ty::ClauseKind::Trait(tp) => J::obj(vec![
            ("k", J::s("trait")),
            ("self", ty(tcx, tp.trait_ref.self_ty())),
            ("trait", J::s(path(tcx, tp.trait_ref.def_id))),
            ("args", gargs(tcx, &tp.trait_ref.args[1..])),
            ("positive", J::Bool(tp.polarity == ty::PredicatePolarity::Positive)),
        ]),
        ty::ClauseKind::TypeOutlives(op) => {
            J::obj(vec![("k", J::s("outlives_ty")), ("ty", ty(tcx, op.0)), ("region", region(op.1))])
        }
        ty::ClauseKind::RegionOutlives(op) => {
            J::obj(vec![("k", J::s("outlives_region")), ("a", region(op.0)), ("b", region(op.1))])
        }
        ty::ClauseKind::Projection(pp) => {
            let def_id = pp.projection_term.def_id();
            let term = match pp.term.kind() {
                ty::TermKind::Ty(t) => ty(tcx, t),
                ty::TermKind::Const(c) => J::s(format!("{:?}", c)),
            };
            J::obj(vec![
                ("k", J::s("projection")),
                ("def", J::s(path(tcx, def_id))),
                ("trait", J::s(path(tcx, tcx.parent(def_id)))),
                ("assoc", J::s(crate::tyj::name_of(tcx, def_id))),
                ("args", gargs(tcx, pp.projection_term.args)),
                ("term", term),
            ])
        }
        ty::ClauseKind::ConstArgHasType(c, t) => {
            J::obj(vec![("k", J::s("const_arg_has_type")), ("c", J::s(format!("{:?}", c))), ("ty", ty(tcx, t))])
        }
        other => J::obj(vec![("k", J::s("other")), ("s", J::s(format!("{:?}", other)))]),
    };
    o.push("bound_vars", J::Num(nbound as i64));
    o.push("s", J::s(ty::print::with_no_visible_paths!(ty::print::with_no_trimmed_paths!(format!("{}", c)))));
    o
}

pub fn name_of(tcx: TyCtxt<'_>, did: DefId) -> String {
    match tcx.opt_item_name(did) {
        Some(s) => s.to_string(),
        None => "<anon>".to_string(),
    }
}
