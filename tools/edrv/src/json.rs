//! Minimal JSON value + serializer (the driver has zero cargo dependencies).

#[derive(Clone, Debug)]
pub enum J {
    Null,
    Bool(bool),
    Num(i64),
    Str(String),
    Arr(Vec<J>),
    Obj(Vec<(String, J)>),
}

impl J {
    pub fn s(x: impl Into<String>) -> J {
        J::Str(x.into())
    }
    pub fn obj(kv: Vec<(&str, J)>) -> J {
        J::Obj(kv.into_iter().map(|(k, v)| (k.to_string(), v)).collect())
    }
    pub fn opt(x: Option<J>) -> J {
        x.unwrap_or(J::Null)
    }
    pub fn push(&mut self, k: &str, v: J) {
        if let J::Obj(kv) = self {
            kv.push((k.to_string(), v));
        }
    }
    pub fn write(&self, out: &mut String) {
        match self {
            J::Null => out.push_str("null"),
            J::Bool(b) => out.push_str(if *b { "true" } else { "false" }),
            J::Num(n) => out.push_str(&n.to_string()),
            J::Str(s) => write_str(s, out),
            J::Arr(a) => {
                out.push('[');
                for (i, x) in a.iter().enumerate() {
                    if i > 0 {
                        out.push(',');
                    }
                    x.write(out);
                }
                out.push(']');
            }
            J::Obj(kv) => {
                out.push('{');
                for (i, (k, v)) in kv.iter().enumerate() {
                    if i > 0 {
                        out.push(',');
                    }
                    write_str(k, out);
                    out.push(':');
                    v.write(out);
                }
                out.push('}');
            }
        }
    }
}

fn write_str(s: &str, out: &mut String) {
    out.push('"');
    for c in s.chars() {
        match c {
            '"' => out.push_str("\\\""),
            '\\' => out.push_str("\\\\"),
            '\n' => out.push_str("\\n"),
            '\r' => out.push_str("\\r"),
            '\t' => out.push_str("\\t"),
            c if (c as u32) < 0x20 => out.push_str(&format!("\\u{:04x}", c as u32)),
            c => out.push(c),
        }
    }
    out.push('"');
}
