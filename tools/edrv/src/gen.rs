//! Facts about the macro crate itself (the *generator*): for every body its resolved
//! calls, function-item and closure references, static accesses, assert terminators
//! and suspicious casts, read from type-checked MIR.

use crate::json::J;
use crate::tyj;
use crate::wit::span_j;
use rustc_hir::def::DefKind;
use rustc_hir::def_id::LocalDefId;
use rustc_middle::mir::{self, Operand, Rvalue, StatementKind, TerminatorKind};
use rustc_middle::ty::{self, TyCtxt};
use rustc_span::Span;

fn macro_bt(sp: Span) -> J {
    let mut v = vec![];
    for d in sp.macro_backtrace() {
        if let rustc_span::ExpnKind::Macro(_, name) = d.kind {
            v.push(J::s(name.as_str()));
        } else {
            v.push(J::s(format!("{:?}", d.kind)));
        }
    }
    J::Arr(v)
}

fn root_span(sp: Span) -> Span {
    // the outermost call site in user source
    let mut s = sp;
    for d in sp.macro_backtrace() {
        s = d.call_site;
    }
    s
}

fn operand_refs<'tcx>(tcx: TyCtxt<'tcx>, op: &Operand<'tcx>, fnrefs: &mut Vec<J>, statics: &mut Vec<J>, sp: Span) {
    if let Operand::Constant(c) = op {
        if let ty::TyKind::FnDef(d, a) = c.const_.ty().kind() {
            fnrefs.push(J::obj(vec![
                ("def", J::s(tyj::path(tcx, (*d).into()))),
                ("gargs", tyj::gargs(tcx, a)),
                ("span", span_j(tcx, root_span(sp))),
            ]));
        }
        if let Some(sd) = c.check_static_ptr(tcx) {
            statics.push(J::obj(vec![
                ("def", J::s(tyj::path(tcx, sd))),
                ("span", span_j(tcx, root_span(sp))),
                ("macros", macro_bt(sp)),
            ]));
        }
    }
}

fn body_facts<'tcx>(tcx: TyCtxt<'tcx>, ldid: LocalDefId) -> Option<J> {
    let did = ldid.to_def_id();
    let kind = tcx.def_kind(did);
    if !matches!(kind, DefKind::Fn | DefKind::AssocFn | DefKind::Closure) {
        return None;
    }
    let steal = tcx.mir_drops_elaborated_and_const_checked(ldid);
    if steal.is_stolen() {
        return Some(J::obj(vec![("path", J::s(tyj::path(tcx, did))), ("stolen", J::Bool(true))]));
    }
    let body = &*steal.borrow();
    let env = ty::TypingEnv::post_analysis(tcx, did);
    // single-assignment constants: `_n = const X` (used to show literal operands of calls)
    let mut const_of: std::collections::HashMap<mir::Local, String> = Default::default();
    let mut assign_count: std::collections::HashMap<mir::Local, usize> = Default::default();
    for (_bb, data) in body.basic_blocks.iter_enumerated() {
        for st in &data.statements {
            if let StatementKind::Assign(b) = &st.kind {
                if let Some(l) = b.0.as_local() {
                    *assign_count.entry(l).or_insert(0) += 1;
                    if let Rvalue::Use(Operand::Constant(c), ..) = &b.1 {
                        const_of.insert(l, format!("{}", c.const_));
                    }
                }
            }
        }
    }
    // propagate through plain copies and reborrows `_a = &(*_b)` / `_a = copy _b`
    for _round in 0..3 {
        for (_bb, data) in body.basic_blocks.iter_enumerated() {
            for st in &data.statements {
                if let StatementKind::Assign(b) = &st.kind {
                    let Some(l) = b.0.as_local() else { continue };
                    let src = match &b.1 {
                        Rvalue::Use(Operand::Copy(p) | Operand::Move(p), ..) => p.as_local(),
                        Rvalue::Ref(_, _, p) => {
                            if p.projection.len() == 1 && matches!(p.projection[0], mir::ProjectionElem::Deref) {
                                Some(p.local)
                            } else {
                                None
                            }
                        }
                        _ => None,
                    };
                    if let Some(srcl) = src {
                        if assign_count.get(&srcl) == Some(&1) {
                            if let Some(v) = const_of.get(&srcl).cloned() {
                                const_of.insert(l, v);
                            }
                        }
                    }
                }
            }
        }
    }
    let const_operand = |op: &Operand<'tcx>| -> J {
        match op {
            Operand::Constant(c) => J::s(format!("{}", c.const_)),
            Operand::Copy(p) | Operand::Move(p) => match p.as_local() {
                Some(l) if assign_count.get(&l) == Some(&1) => match const_of.get(&l) {
                    Some(s) => J::s(s.clone()),
                    None => J::Null,
                },
                _ => J::Null,
            },
            _ => J::Null,
        }
    };
    let mut calls = vec![];
    let mut fnrefs = vec![];
    let mut closures = vec![];
    let mut statics = vec![];
    let mut asserts = vec![];
    let mut casts = vec![];
    let mut tls = vec![];
    let mut discrs = vec![];
    for (_bb, data) in body.basic_blocks.iter_enumerated() {
        for st in &data.statements {
            let sp = st.source_info.span;
            if let StatementKind::Assign(b) = &st.kind {
                let rv = &b.1;
                match rv {
                    Rvalue::Aggregate(ak, ops) => {
                        match **ak {
                            mir::AggregateKind::Closure(d, _) | mir::AggregateKind::Coroutine(d, _) => {
                                closures.push(J::s(tyj::path(tcx, d)));
                            }
                            _ => {}
                        }
                        for op in ops.iter() {
                            operand_refs(tcx, op, &mut fnrefs, &mut statics, sp);
                        }
                    }
                    Rvalue::Use(op, ..) | Rvalue::Repeat(op, _) | Rvalue::UnaryOp(_, op) => {
                        operand_refs(tcx, op, &mut fnrefs, &mut statics, sp);
                    }
                    Rvalue::Cast(ck, op, t) => {
                        operand_refs(tcx, op, &mut fnrefs, &mut statics, sp);
                        let cks = format!("{:?}", ck);
                        if cks.contains("Expose") || cks.contains("Transmute") {
                            casts.push(J::obj(vec![
                                ("kind", J::s(cks)),
                                ("to", J::s(tyj::ty_str(*t))),
                                ("span", span_j(tcx, root_span(sp))),
                                ("macros", macro_bt(sp)),
                            ]));
                        }
                    }
                    Rvalue::BinaryOp(_, ops) => {
                        operand_refs(tcx, &ops.0, &mut fnrefs, &mut statics, sp);
                        operand_refs(tcx, &ops.1, &mut fnrefs, &mut statics, sp);
                    }
                    Rvalue::Discriminant(place) => {
                        // which enum / Option is being matched on (presence tests of option values)
                        discrs.push(J::obj(vec![
                            ("ty", J::s(tyj::ty_str(place.ty(body, tcx).ty))),
                            ("span", span_j(tcx, root_span(sp))),
                            ("macros", macro_bt(sp)),
                        ]));
                    }
                    Rvalue::ThreadLocalRef(d) => {
                        tls.push(J::obj(vec![
                            ("def", J::s(tyj::path(tcx, *d))),
                            ("span", span_j(tcx, root_span(sp))),
                        ]));
                    }
                    _ => {}
                }
            }
        }
        let Some(term) = &data.terminator else { continue };
        let sp = term.source_info.span;
        match &term.kind {
            TerminatorKind::Call { func, args, .. } => {
                let fty = func.ty(body, tcx);
                for a in args.iter() {
                    operand_refs(tcx, &a.node, &mut fnrefs, &mut statics, sp);
                }
                let mut o = J::obj(vec![
                    ("fty", J::s(tyj::ty_str(fty))),
                    ("cleanup", J::Bool(data.is_cleanup)),
                    ("span", span_j(tcx, root_span(sp))),
                    ("macros", macro_bt(sp)),
                    (
                        "arg_tys",
                        J::Arr(args.iter().map(|a| J::s(tyj::ty_str(a.node.ty(body, tcx)))).collect()),
                    ),
                    ("const_args", J::Arr(args.iter().map(|a| const_operand(&a.node)).collect())),
                ]);
                if let ty::TyKind::FnDef(d, a) = fty.kind() {
                    let d: rustc_hir::def_id::DefId = (*d).into();
                    o.push("def", J::s(tyj::path(tcx, d)));
                    o.push("local", J::Bool(d.is_local()));
                    o.push("gargs", tyj::gargs(tcx, a));
                    o.push("gargs_s", J::Arr(a.iter().map(|x| J::s(ty::print::with_no_trimmed_paths!(format!("{}", x)))).collect()));
                    if let Some(tr) = tcx.trait_of_assoc(d) {
                        o.push("trait", J::s(tyj::path(tcx, tr)));
                    }
                    let resolved = match ty::Instance::try_resolve(tcx, env, d, a) {
                        Ok(Some(inst)) => J::obj(vec![
                            ("def", J::s(tyj::path(tcx, inst.def_id()))),
                            ("local", J::Bool(inst.def_id().is_local())),
                            (
                                "kind",
                                J::s(format!("{:?}", inst.def).split('(').next().unwrap_or("?").to_string()),
                            ),
                        ]),
                        Ok(None) => J::s("unresolved"),
                        Err(_) => J::s("error"),
                    };
                    o.push("resolved", resolved);
                } else {
                    o.push("def", J::Null);
                }
                calls.push(o);
            }
            TerminatorKind::Assert { msg, .. } => {
                let k = format!("{:?}", msg);
                let k: String = k.chars().take_while(|c| c.is_alphanumeric()).collect();
                asserts.push(J::obj(vec![
                    ("kind", J::s(k)),
                    ("span", span_j(tcx, root_span(sp))),
                    ("macros", macro_bt(sp)),
                ]));
            }
            _ => {}
        }
    }
    let mut o = J::obj(vec![
        ("path", J::s(tyj::path(tcx, did))),
        ("kind", J::s(format!("{:?}", kind))),
        ("span", span_j(tcx, tcx.def_span(did))),
        ("calls", J::Arr(calls)),
        ("fnrefs", J::Arr(fnrefs)),
        ("closures", J::Arr(closures)),
        ("statics", J::Arr(statics)),
        ("tls", J::Arr(tls)),
        ("asserts", J::Arr(asserts)),
        ("casts", J::Arr(casts)),
        ("discrs", J::Arr(discrs)),
    ]);
    let hid = tcx.local_def_id_to_hir_id(ldid);
    o.push("attrs", J::Arr(tcx.hir_attrs(hid).iter().map(|a| J::s(format!("{:?}", a))).collect()));
    if let DefKind::Closure = kind {
        o.push("parent", J::s(tyj::path(tcx, tcx.parent(did))));
        // captured upvars
        let ups: Vec<J> = tcx
            .closure_captures(ldid)
            .iter()
            .map(|c| J::s(format!("{}", c.to_string(tcx))))
            .collect();
        o.push("captures", J::Arr(ups));
    }
    if let DefKind::AssocFn = kind {
        let parent = tcx.parent(did);
        if let DefKind::Impl { of_trait: true } = tcx.def_kind(parent) {
            let tr = tcx.impl_trait_ref(parent).instantiate_identity().skip_norm_wip();
            o.push("impl_trait", J::s(tyj::path(tcx, tr.def_id)));
            o.push("impl_self", J::s(tyj::ty_str(tr.self_ty())));
        } else if let DefKind::Impl { .. } = tcx.def_kind(parent) {
            let st = tcx.type_of(parent).instantiate_identity().skip_norm_wip();
            o.push("impl_self", J::s(tyj::ty_str(st)));
        }
    }
    Some(o)
}

pub fn facts(tcx: TyCtxt<'_>) -> J {
    let mut bodies = vec![];
    let mut owners: Vec<LocalDefId> = tcx.hir_body_owners().collect();
    owners.sort_by_key(|d| d.local_def_index.as_u32());
    for ldid in owners {
        if let Some(b) = body_facts(tcx, ldid) {
            bodies.push(b);
        }
    }
    // statics / consts declared in the crate
    let mut statics = vec![];
    for ldid in tcx.hir_crate_items(()).definitions() {
        let did = ldid.to_def_id();
        if let DefKind::Static { .. } = tcx.def_kind(did) {
            statics.push(J::obj(vec![
                ("path", J::s(tyj::path(tcx, did))),
                ("span", span_j(tcx, tcx.def_span(did))),
            ]));
        }
    }
    J::obj(vec![
        ("crate", J::s(tcx.crate_name(rustc_hir::def_id::LOCAL_CRATE).as_str())),
        ("mode", J::s("gen")),
        ("bodies", J::Arr(bodies)),
        ("statics", J::Arr(statics)),
    ])
}
