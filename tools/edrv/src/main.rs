//! edrv — a rustc driver that dumps facts about a type-checked crate as JSON.
//!
//! Injected with RUSTC_WORKSPACE_WRAPPER under `cargo +nightly check`. Environment:
//!   EDRV_OUT   directory; facts are written to $EDRV_OUT/<crate>.json (one write per process)
//!   EDRV_MODE  "wit" (default) or "gen"
//!   EDRV_CFG   space separated extra `--cfg` values for the primary crate (e.g. "test")
//!   EDRV_ONLY  optional crate name filter; other crates are compiled without fact dumping
#![feature(rustc_private)]
extern crate rustc_driver;
extern crate rustc_hir;
extern crate rustc_interface;
extern crate rustc_middle;
extern crate rustc_span;

mod gen;
mod json;
mod tyj;
mod wit;

use rustc_driver::Compilation;
use rustc_middle::ty::TyCtxt;

struct Cb;
impl rustc_driver::Callbacks for Cb {
    fn after_analysis<'tcx>(&mut self, _c: &rustc_interface::interface::Compiler, tcx: TyCtxt<'tcx>) -> Compilation {
        let Ok(out) = std::env::var("EDRV_OUT") else { return Compilation::Continue };
        let krate = tcx.crate_name(rustc_hir::def_id::LOCAL_CRATE).to_string();
        if let Ok(only) = std::env::var("EDRV_ONLY") {
            if !only.split(',').any(|x| x == krate) {
                return Compilation::Continue;
            }
        }
        if krate.starts_with("build_script") {
            return Compilation::Continue;
        }
        let mode = std::env::var("EDRV_MODE").unwrap_or_else(|_| "wit".into());
        let facts = if mode == "gen" { gen::facts(tcx) } else { wit::facts(tcx) };
        let mut s = String::new();
        facts.write(&mut s);
        s.push('\n');
        let suffix = std::env::var("EDRV_SUFFIX").unwrap_or_default();
        let path = format!("{}/{}{}.json", out, krate, suffix);
        let tmp = format!("{}.tmp{}", path, std::process::id());
        std::fs::write(&tmp, s).expect("edrv: cannot write facts");
        std::fs::rename(&tmp, &path).expect("edrv: cannot rename facts");
        Compilation::Continue
    }
}

fn main() {
    let mut args: Vec<String> = std::env::args().collect();
    // RUSTC_WORKSPACE_WRAPPER passes the real rustc path as argv[1]
    args.remove(1);
    if let Ok(cfgs) = std::env::var("EDRV_CFG") {
        for c in cfgs.split_whitespace() {
            args.push("--cfg".into());
            args.push(c.into());
        }
    }
    rustc_driver::run_compiler(&args, &mut Cb);
}
