//! Facts about a type-checked crate *after* macro expansion: every definition with its
//! expansion provenance, generated traits/impls (generics, predicates, visibility), and
//! the type-checked HIR of every body with resolved callees.

use crate::json::J;
use crate::tyj;
use rustc_hir as hir;
use rustc_hir::def::{DefKind, Res};
use rustc_hir::def_id::{DefId, LocalDefId};
use rustc_middle::ty::{self, TyCtxt};
use rustc_span::{ExpnKind, Span};

pub fn span_j(tcx: TyCtxt<'_>, sp: Span) -> J {
    let sm = tcx.sess.source_map();
    let lo = sm.lookup_char_pos(sp.lo());
    let hi = sm.lookup_char_pos(sp.hi());
    let file = match &lo.file.name {
        rustc_span::FileName::Real(r) => r
            .local_path()
            .map(|p| p.to_string_lossy().to_string())
            .unwrap_or_else(|| format!("{:?}", r)),
        other => format!("{:?}", other),
    };
    J::obj(vec![
        ("file", J::s(file)),
        ("lo_line", J::Num(lo.line as i64)),
        ("lo_col", J::Num(lo.col.0 as i64)),
        ("hi_line", J::Num(hi.line as i64)),
        ("hi_col", J::Num(hi.col.0 as i64)),
    ])
}

pub fn expn_chain(tcx: TyCtxt<'_>, did: DefId) -> J {
    let mut out = vec![];
    let mut e = tcx.expn_that_defined(did);
    let mut guard = 0;
    loop {
        let d = e.expn_data();
        match d.kind {
            ExpnKind::Root => break,
            ExpnKind::Macro(mk, name) => out.push(J::obj(vec![
                ("kind", J::s(format!("{:?}", mk))),
                ("name", J::s(name.as_str())),
                ("call_site", span_j(tcx, d.call_site)),
            ])),
            ExpnKind::AstPass(p) => out.push(J::obj(vec![
                ("kind", J::s("AstPass")),
                ("name", J::s(format!("{:?}", p))),
                ("call_site", span_j(tcx, d.call_site)),
            ])),
            ExpnKind::Desugaring(k) => out.push(J::obj(vec![
                ("kind", J::s("Desugaring")),
                ("name", J::s(format!("{:?}", k))),
                ("call_site", span_j(tcx, d.call_site)),
            ])),
        }
        e = d.parent;
        guard += 1;
        if guard > 64 {
            break;
        }
    }
    J::Arr(out)
}

fn vis_j(tcx: TyCtxt<'_>, v: ty::Visibility<DefId>) -> J {
    match v {
        ty::Visibility::Public => J::s("public"),
        ty::Visibility::Restricted(m) => J::obj(vec![("restricted", J::s(tyj::path(tcx, m)))]),
    }
}

fn generics_j(tcx: TyCtxt<'_>, did: DefId) -> J {
    let g = tcx.generics_of(did);
    let own: Vec<J> = g
        .own_params
        .iter()
        .map(|p| {
            let kind = match p.kind {
                ty::GenericParamDefKind::Lifetime => "lifetime",
                ty::GenericParamDefKind::Type { .. } => "type",
                ty::GenericParamDefKind::Const { .. } => "const",
            };
            J::obj(vec![
                ("name", J::s(p.name.as_str())),
                ("kind", J::s(kind)),
                ("index", J::Num(p.index as i64)),
            ])
        })
        .collect();
    J::obj(vec![
        ("own", J::Arr(own)),
        ("parent", J::opt(g.parent.map(|p| J::s(tyj::path(tcx, p))))),
        ("has_self", J::Bool(g.has_self)),
    ])
}

fn predicates_j(tcx: TyCtxt<'_>, did: DefId) -> J {
    let p = tcx.predicates_of(did);
    J::obj(vec![
        ("own", J::Arr(p.predicates.iter().map(|(c, _)| tyj::clause(tcx, *c)).collect())),
        ("parent", J::opt(p.parent.map(|p| J::s(tyj::path(tcx, p))))),
    ])
}

fn attrs_j(tcx: TyCtxt<'_>, ldid: LocalDefId) -> J {
    let hid = tcx.local_def_id_to_hir_id(ldid);
    J::Arr(tcx.hir_attrs(hid).iter().map(|a| J::s(format!("{:?}", a))).collect())
}

struct BodyCx<'tcx> {
    tcx: TyCtxt<'tcx>,
    typeck: &'tcx ty::TypeckResults<'tcx>,
    owner: LocalDefId,
    all_tys: std::collections::BTreeSet<String>,
    adjust_kinds: std::collections::BTreeSet<String>,
}

fn hid_s(h: hir::HirId) -> String {
    format!("{}.{}", h.owner.def_id.local_def_index.as_u32(), h.local_id.as_u32())
}

impl<'tcx> BodyCx<'tcx> {
    fn resolve(&self, def: DefId, args: ty::GenericArgsRef<'tcx>) -> J {
        let tcx = self.tcx;
        if !matches!(tcx.def_kind(def), DefKind::Fn | DefKind::AssocFn) {
            return J::Null;
        }
        if tcx.generics_of(def).count() != args.len() {
            return J::s("arity-mismatch");
        }
        let env = ty::TypingEnv::post_analysis(tcx, self.owner.to_def_id());
        match ty::Instance::try_resolve(tcx, env, def, args) {
            Ok(Some(inst)) => {
                let kind = match inst.def {
                    ty::InstanceKind::Item(_) => "Item".to_string(),
                    ty::InstanceKind::Virtual(_, idx) => format!("Virtual#{}", idx),
                    other => format!("{:?}", other).split('(').next().unwrap_or("?").to_string(),
                };
                J::obj(vec![
                    ("kind", J::s(kind)),
                    ("def", J::s(tyj::path(tcx, inst.def_id()))),
                    ("args", tyj::gargs(tcx, inst.args)),
                ])
            }
            Ok(None) => J::s("unresolved"),
            Err(_) => J::s("error"),
        }
    }

    fn callee(&self, def: DefId, args: ty::GenericArgsRef<'tcx>) -> J {
        let tcx = self.tcx;
        let kind = tcx.def_kind(def);
        let mut o = J::obj(vec![
            ("def", J::s(tyj::path(tcx, def))),
            ("kind", J::s(format!("{:?}", kind))),
            ("args", tyj::gargs(tcx, args)),
            ("local", J::Bool(def.is_local())),
            ("resolved", self.resolve(def, args)),
        ]);
        if let DefKind::AssocFn = kind {
            let parent = tcx.parent(def);
            o.push("container", J::s(tyj::path(tcx, parent)));
            o.push("container_kind", J::s(format!("{:?}", tcx.def_kind(parent))));
        }
        o
    }

    fn pat_path(&self, qp: &hir::QPath<'tcx>, hid: hir::HirId) -> J {
        match self.typeck.qpath_res(qp, hid) {
            Res::Def(_, d) => J::s(tyj::path(self.tcx, d)),
            other => J::s(format!("{:?}", other)),
        }
    }

    fn pat(&mut self, p: &'tcx hir::Pat<'tcx>) -> J {
        use hir::PatKind as P;
        match p.kind {
            P::Binding(mode, hid, ident, sub) => J::obj(vec![
                ("p", J::s("binding")),
                ("name", J::s(ident.as_str())),
                ("mode", J::s(format!("{:?}", mode))),
                ("hir_id", J::s(hid_s(hid))),
                ("sub", J::opt(sub.map(|s| self.pat(s)))),
            ]),
            P::Wild => J::obj(vec![("p", J::s("wild"))]),
            P::Tuple(ps, _) => J::obj(vec![
                ("p", J::s("tuple")),
                ("ps", J::Arr(ps.iter().map(|x| self.pat(x)).collect())),
            ]),
            P::TupleStruct(ref qp, ps, _) => J::obj(vec![
                ("p", J::s("tuplestruct")),
                ("path", self.pat_path(qp, p.hir_id)),
                ("ps", J::Arr(ps.iter().map(|x| self.pat(x)).collect())),
            ]),
            P::Struct(ref qp, fs, _) => J::obj(vec![
                ("p", J::s("struct")),
                ("path", self.pat_path(qp, p.hir_id)),
                ("ps", J::Arr(fs.iter().map(|f| self.pat(f.pat)).collect())),
            ]),
            P::Expr(pe) => match pe.kind {
                hir::PatExprKind::Path(ref qp) => {
                    J::obj(vec![("p", J::s("path")), ("path", self.pat_path(qp, pe.hir_id))])
                }
                _ => J::obj(vec![("p", J::s("lit"))]),
            },
            P::Ref(inner, ..) => J::obj(vec![("p", J::s("ref")), ("ps", J::Arr(vec![self.pat(inner)]))]),
            P::Box(inner) => J::obj(vec![("p", J::s("box")), ("ps", J::Arr(vec![self.pat(inner)]))]),
            _ => J::obj(vec![("p", J::s("other"))]),
        }
    }

    fn expr(&mut self, e: &'tcx hir::Expr<'tcx>) -> J {
        use hir::ExprKind as K;
        let tcx = self.tcx;
        let tr = self.typeck;
        let mut o = match e.kind {
            K::Call(f, args) => {
                let mut callee = J::Null;
                if let ty::TyKind::FnDef(did, fargs) = tr.expr_ty(f).kind() {
                    callee = self.callee((*did).into(), fargs);
                } else if let K::Path(ref qp) = f.kind {
                    if let Res::Def(_, did) = tr.qpath_res(qp, f.hir_id) {
                        callee = self.callee(did, tr.node_args(f.hir_id));
                    }
                }
                let fexpr = if matches!(callee, J::Null) { self.expr(f) } else { J::Null };
                J::obj(vec![
                    ("k", J::s("call")),
                    ("callee", callee),
                    ("f", fexpr),
                    ("args", J::Arr(args.iter().map(|a| self.expr(a)).collect())),
                ])
            }
            K::MethodCall(seg, recv, args, _) => {
                let callee = match tr.type_dependent_def_id(e.hir_id) {
                    Some(did) => self.callee(did, tr.node_args(e.hir_id)),
                    None => J::Null,
                };
                J::obj(vec![
                    ("k", J::s("mcall")),
                    ("name", J::s(seg.ident.as_str())),
                    ("callee", callee),
                    ("recv", self.expr(recv)),
                    ("args", J::Arr(args.iter().map(|a| self.expr(a)).collect())),
                ])
            }
            K::Path(ref qp) => match tr.qpath_res(qp, e.hir_id) {
                Res::Local(hid) => J::obj(vec![
                    ("k", J::s("local")),
                    ("hir_id", J::s(hid_s(hid))),
                    ("name", J::s(tcx.hir_name(hid).as_str())),
                ]),
                Res::Def(kind, did) => J::obj(vec![
                    ("k", J::s("defpath")),
                    ("def", J::s(tyj::path(tcx, did))),
                    ("kind", J::s(format!("{:?}", kind))),
                    ("args", tyj::gargs(tcx, tr.node_args(e.hir_id))),
                ]),
                other => J::obj(vec![("k", J::s("respath")), ("s", J::s(format!("{:?}", other)))]),
            },
            K::AddrOf(_, m, x) => {
                J::obj(vec![("k", J::s("addrof")), ("mut", J::Bool(m.is_mut())), ("e", self.expr(x))])
            }
            K::Unary(op, x) => {
                J::obj(vec![("k", J::s("unary")), ("op", J::s(format!("{:?}", op))), ("e", self.expr(x))])
            }
            K::DropTemps(x) => J::obj(vec![("k", J::s("droptemps")), ("e", self.expr(x))]),
            K::Use(x, _) => J::obj(vec![("k", J::s("use")), ("e", self.expr(x))]),
            K::Block(b, _) => self.block(b),
            K::Closure(c) => {
                let body = tcx.hir_body(c.body);
                let ctr = tcx.typeck(c.def_id);
                let mut sub = BodyCx {
                    tcx,
                    typeck: ctr,
                    owner: c.def_id,
                    all_tys: Default::default(),
                    adjust_kinds: Default::default(),
                };
                let params: Vec<J> = body.params.iter().map(|p| sub.pat(p.pat)).collect();
                let value = sub.expr(body.value);
                self.all_tys.extend(sub.all_tys);
                self.adjust_kinds.extend(sub.adjust_kinds);
                J::obj(vec![
                    ("k", J::s("closure")),
                    ("closure_kind", J::s(format!("{:?}", c.kind))),
                    ("def", J::s(tyj::path(tcx, c.def_id.to_def_id()))),
                    ("params", J::Arr(params)),
                    ("body", value),
                ])
            }
            K::Match(scrut, arms, src) => {
                let mut o = J::obj(vec![
                    ("k", J::s("match")),
                    ("src", J::s(format!("{:?}", src))),
                    ("scrut", self.expr(scrut)),
                    ("n_arms", J::Num(arms.len() as i64)),
                ]);
                if !matches!(src, hir::MatchSource::AwaitDesugar) {
                    o.push(
                        "arms",
                        J::Arr(
                            arms.iter()
                                .map(|a| {
                                    J::obj(vec![
                                        ("pat", self.pat(a.pat)),
                                        ("guard", J::Bool(a.guard.is_some())),
                                        ("body", self.expr(a.body)),
                                    ])
                                })
                                .collect(),
                        ),
                    );
                }
                o
            }
            K::Tup(xs) => J::obj(vec![("k", J::s("tup")), ("es", J::Arr(xs.iter().map(|a| self.expr(a)).collect()))]),
            K::Lit(_) => J::obj(vec![("k", J::s("lit"))]),
            K::Field(x, id) => {
                J::obj(vec![("k", J::s("field")), ("name", J::s(id.as_str())), ("e", self.expr(x))])
            }
            K::Ret(x) => J::obj(vec![("k", J::s("ret")), ("e", J::opt(x.map(|x| self.expr(x))))]),
            K::Cast(x, _) => J::obj(vec![("k", J::s("cast")), ("e", self.expr(x))]),
            K::Type(x, _) => J::obj(vec![("k", J::s("type")), ("e", self.expr(x))]),
            K::If(c, t, f) => J::obj(vec![
                ("k", J::s("if")),
                ("c", self.expr(c)),
                ("t", self.expr(t)),
                ("f", J::opt(f.map(|x| self.expr(x)))),
            ]),
            K::Binary(op, a, b) => J::obj(vec![
                ("k", J::s("binary")),
                ("op", J::s(format!("{:?}", op.node))),
                ("a", self.expr(a)),
                ("b", self.expr(b)),
            ]),
            K::Struct(_, fields, _) => J::obj(vec![
                ("k", J::s("struct")),
                ("es", J::Arr(fields.iter().map(|f| self.expr(f.expr)).collect())),
            ]),
            K::Array(xs) => J::obj(vec![("k", J::s("array")), ("es", J::Arr(xs.iter().map(|a| self.expr(a)).collect()))]),
            K::Loop(b, ..) => J::obj(vec![("k", J::s("loop")), ("e", self.block(b))]),
            K::Assign(a, b, _) => J::obj(vec![("k", J::s("assign")), ("a", self.expr(a)), ("b", self.expr(b))]),
            K::Yield(x, _) => J::obj(vec![("k", J::s("yield")), ("e", self.expr(x))]),
            K::Break(_, x) => J::obj(vec![("k", J::s("break")), ("e", J::opt(x.map(|x| self.expr(x))))]),
            _ => J::obj(vec![("k", J::s("other")), ("kind", J::s(kind_name(&e.kind)))]),
        };
        let t = tr.expr_ty(e);
        let ts = tyj::ty_str(t);
        self.all_tys.insert(ts.clone());
        o.push("ty", J::s(ts));
        let adjs = tr.expr_adjustments(e);
        if !adjs.is_empty() {
            let mut v = vec![];
            for a in adjs {
                let ks = format!("{:?}", a.kind);
                let short = adjust_short(&ks);
                self.adjust_kinds.insert(short.clone());
                let tgt = tyj::ty_str(a.target);
                self.all_tys.insert(tgt.clone());
                v.push(J::obj(vec![("kind", J::s(short)), ("target", J::s(tgt))]));
            }
            o.push("adj", J::Arr(v));
        }
        o
    }

    fn block(&mut self, b: &'tcx hir::Block<'tcx>) -> J {
        let mut stmts = vec![];
        for st in b.stmts {
            match st.kind {
                hir::StmtKind::Let(l) => stmts.push(J::obj(vec![
                    ("s", J::s("let")),
                    ("pat", self.pat(l.pat)),
                    ("init", J::opt(l.init.map(|i| self.expr(i)))),
                    ("has_else", J::Bool(l.els.is_some())),
                ])),
                hir::StmtKind::Expr(x) => stmts.push(J::obj(vec![("s", J::s("expr")), ("e", self.expr(x))])),
                hir::StmtKind::Semi(x) => stmts.push(J::obj(vec![("s", J::s("semi")), ("e", self.expr(x))])),
                hir::StmtKind::Item(_) => stmts.push(J::obj(vec![("s", J::s("item"))])),
            }
        }
        J::obj(vec![
            ("k", J::s("block")),
            ("stmts", J::Arr(stmts)),
            ("expr", J::opt(b.expr.map(|x| self.expr(x)))),
            ("rules", J::s(format!("{:?}", b.rules))),
        ])
    }
}

fn adjust_short(ks: &str) -> String {
    // Keep the adjustment kind without spans: e.g. "Deref(Builtin)", "Deref(Overloaded)",
    // "Borrow(Ref)", "Pointer(Unsize)".
    let head: String = ks.chars().take_while(|c| *c != '(').collect();
    let rest = &ks[head.len()..];
    let inner: String = rest.trim_start_matches('(').chars().take_while(|c| c.is_alphanumeric()).collect();
    format!("{}({})", head, inner)
}

fn kind_name(k: &hir::ExprKind<'_>) -> String {
    let s = format!("{:?}", k);
    s.chars().take_while(|c| c.is_alphanumeric()).collect()
}

fn mir_calls(tcx: TyCtxt<'_>, ldid: LocalDefId) -> J {
    use rustc_middle::mir::TerminatorKind;
    if tcx.coroutine_kind(ldid.to_def_id()).is_some() {
        return J::Null;
    }
    let steal = tcx.mir_drops_elaborated_and_const_checked(ldid);
    if steal.is_stolen() {
        return J::Null;
    }
    let body = &*steal.borrow();
    let mut calls = vec![];
    for (_bb, data) in body.basic_blocks.iter_enumerated() {
        if data.is_cleanup {
            continue;
        }
        if let Some(term) = &data.terminator {
            if let TerminatorKind::Call { func, args, destination, .. } = &term.kind {
                let fty = func.ty(body, tcx);
                let (def, gargs) = match fty.kind() {
                    ty::TyKind::FnDef(d, a) => (J::s(tyj::path(tcx, (*d).into())), tyj::gargs(tcx, a)),
                    _ => (J::Null, J::Null),
                };
                calls.push(J::obj(vec![
                    ("def", def),
                    ("gargs", gargs),
                    ("fty", J::s(tyj::ty_str(fty))),
                    ("args", J::Arr(args.iter().map(|a| J::s(format!("{:?}", a.node))).collect())),
                    ("dest", J::s(format!("{:?}", destination))),
                ]));
            }
        }
    }
    J::obj(vec![("arg_count", J::Num(body.arg_count as i64)), ("calls", J::Arr(calls))])
}

fn fn_like_j<'tcx>(tcx: TyCtxt<'tcx>, ldid: LocalDefId, o: &mut J) {
    let did = ldid.to_def_id();
    let sig = tcx.fn_sig(did).instantiate_identity().skip_norm_wip();
    let nbound = sig.bound_vars().len();
    let s = sig.skip_binder();
    o.push(
        "sig",
        J::obj(vec![
            ("inputs", J::Arr(s.inputs().iter().map(|t| tyj::ty(tcx, *t)).collect())),
            ("output", tyj::ty(tcx, s.output())),
            ("inputs_s", J::Arr(s.inputs().iter().map(|t| J::s(tyj::ty_str(*t))).collect())),
            ("output_s", J::s(tyj::ty_str(s.output()))),
            ("safety", J::s(format!("{:?}", s.safety()))),
            ("abi", J::s(format!("{:?}", s.abi()))),
            ("c_variadic", J::Bool(s.c_variadic())),
            ("bound_vars", J::Num(nbound as i64)),
            ("s", J::s(ty::print::with_no_trimmed_paths!(format!("{}", sig)))),
        ]),
    );
    o.push(
        "arg_idents",
        J::Arr(
            tcx.fn_arg_idents(did)
                .iter()
                .map(|i| match i {
                    Some(i) => J::s(i.as_str()),
                    None => J::Null,
                })
                .collect(),
        ),
    );
    o.push("asyncness", J::Bool(tcx.asyncness(did).is_async()));
    o.push("constness", J::s(format!("{:?}", tcx.constness(did))));
    // opaque / RPITIT output bounds
    let out = s.output();
    if let ty::TyKind::Alias(alias) = out.kind() {
        let def_id = match alias.kind {
            ty::AliasTyKind::Projection { def_id } if tcx.is_impl_trait_in_trait(def_id) => Some(def_id),
            ty::AliasTyKind::Opaque { def_id } => Some(def_id),
            _ => None,
        };
        if let Some(def_id) = def_id {
            let bounds = tcx.explicit_item_bounds(def_id).skip_binder();
            o.push(
                "output_bounds",
                J::Arr(bounds.iter().map(|(c, _)| tyj::clause(tcx, *c)).collect()),
            );
        }
    }
    if tcx.hir_maybe_body_owned_by(ldid).is_some() {
        let body = tcx.hir_body_owned_by(ldid);
        let typeck = tcx.typeck(ldid);
        let mut cx = BodyCx {
            tcx,
            typeck,
            owner: ldid,
            all_tys: Default::default(),
            adjust_kinds: Default::default(),
        };
        let params: Vec<J> = body.params.iter().map(|p| cx.pat(p.pat)).collect();
        let value = cx.expr(body.value);
        o.push("has_body", J::Bool(true));
        o.push("params", J::Arr(params));
        o.push("body", value);
        o.push("body_tys", J::Arr(cx.all_tys.into_iter().map(J::Str).collect()));
        o.push("body_adjusts", J::Arr(cx.adjust_kinds.into_iter().map(J::Str).collect()));
        o.push("mir", mir_calls(tcx, ldid));
    } else {
        o.push("has_body", J::Bool(false));
    }
}

pub fn facts(tcx: TyCtxt<'_>) -> J {
    let mut defs = vec![];
    let mut all: Vec<LocalDefId> = tcx.hir_crate_items(()).definitions().collect();
    all.sort_by_key(|d| d.local_def_index.as_u32());
    for ldid in all {
        let did = ldid.to_def_id();
        let kind = tcx.def_kind(did);
        let interesting = matches!(
            kind,
            DefKind::Trait
                | DefKind::Impl { .. }
                | DefKind::Fn
                | DefKind::AssocFn
                | DefKind::AssocTy
                | DefKind::AssocConst { .. }
                | DefKind::Mod
                | DefKind::Use
                | DefKind::Struct
                | DefKind::Enum
                | DefKind::Const { .. }
                | DefKind::Static { .. }
                | DefKind::Macro(..)
                | DefKind::TyAlias
                | DefKind::ExternCrate
                | DefKind::ForeignMod
        );
        if !interesting {
            continue;
        }
        let mut o = J::obj(vec![
            ("path", J::s(tyj::path(tcx, did))),
            ("kind", J::s(format!("{:?}", kind).split([' ', '{', '(']).next().unwrap_or("?").to_string())),
            ("kind_full", J::s(format!("{:?}", kind))),
            ("index", J::Num(ldid.local_def_index.as_u32() as i64)),
            ("span", span_j(tcx, tcx.def_span(did))),
            ("expn", expn_chain(tcx, did)),
            ("attrs", attrs_j(tcx, ldid)),
        ]);
        if !matches!(kind, DefKind::Mod) || ldid != rustc_hir::def_id::CRATE_DEF_ID {
            if let Some(p) = tcx.opt_parent(did) {
                o.push("parent", J::s(tyj::path(tcx, p)));
                o.push("parent_kind", J::s(format!("{:?}", tcx.def_kind(p))));
            }
            let hid = tcx.local_def_id_to_hir_id(ldid);
            o.push("parent_module", J::s(tyj::path(tcx, tcx.parent_module(hid).to_def_id())));
        }
        if matches!(
            kind,
            DefKind::Trait
                | DefKind::Fn
                | DefKind::AssocFn
                | DefKind::Mod
                | DefKind::Use
                | DefKind::Struct
                | DefKind::Enum
                | DefKind::Const { .. }
                | DefKind::Static { .. }
                | DefKind::TyAlias
                | DefKind::AssocTy
                | DefKind::AssocConst { .. }
        ) {
            o.push("vis", vis_j(tcx, tcx.visibility(did)));
        }
        match tcx.hir_node_by_def_id(ldid) {
            hir::Node::Item(it) => {
                o.push("vis_written", J::Bool(!it.vis_span.is_empty()));
                o.push("vis_text", J::s(tcx.sess.source_map().span_to_snippet(it.vis_span).unwrap_or_default()));
            }
            hir::Node::ImplItem(it) => {
                if let Some(vs) = it.vis_span() {
                    o.push("vis_written", J::Bool(!vs.is_empty()));
                }
            }
            _ => {}
        }
        match kind {
            DefKind::Trait => {
                o.push("generics", generics_j(tcx, did));
                o.push("predicates", predicates_j(tcx, did));
                let sup = tcx.explicit_super_predicates_of(did).skip_binder();
                o.push("super_predicates", J::Arr(sup.iter().map(|(c, _)| tyj::clause(tcx, *c)).collect()));
                o.push(
                    "items",
                    J::Arr(
                        tcx.associated_item_def_ids(did)
                            .iter()
                            .map(|d| {
                                J::obj(vec![
                                    ("path", J::s(tyj::path(tcx, *d))),
                                    ("name", J::s(crate::tyj::name_of(tcx, *d))),
                                    ("kind", J::s(format!("{:?}", tcx.def_kind(*d)))),
                                    ("synthetic", J::Bool(tcx.is_impl_trait_in_trait(*d))),
                                    (
                                        "has_default",
                                        J::Bool(tcx.defaultness(*d).has_value()),
                                    ),
                                ])
                            })
                            .collect(),
                    ),
                );
                let td = tcx.trait_def(did);
                o.push("safety", J::s(format!("{:?}", td.safety)));
                o.push("is_auto", J::Bool(tcx.trait_is_auto(did)));
                o.push("dyn_compatible", J::Bool(tcx.is_dyn_compatible(did)));
            }
            DefKind::Impl { of_trait } => {
                o.push("generics", generics_j(tcx, did));
                o.push("predicates", predicates_j(tcx, did));
                let self_ty = tcx.type_of(did).instantiate_identity().skip_norm_wip();
                o.push("self_ty", tyj::ty(tcx, self_ty));
                o.push("self_ty_s", J::s(tyj::ty_str(self_ty)));
                if of_trait {
                    let tr = tcx.impl_trait_ref(did).instantiate_identity().skip_norm_wip();
                    o.push(
                        "of_trait",
                        J::obj(vec![
                            ("trait", J::s(tyj::path(tcx, tr.def_id))),
                            ("args", tyj::gargs(tcx, &tr.args[1..])),
                            ("local", J::Bool(tr.def_id.is_local())),
                        ]),
                    );
                    let h = tcx.impl_trait_header(did);
                    o.push("safety", J::s(format!("{:?}", h.safety)));
                    o.push("polarity", J::s(format!("{:?}", h.polarity)));
                } else {
                    o.push("of_trait", J::Null);
                }
                o.push(
                    "items",
                    J::Arr(
                        tcx.associated_item_def_ids(did)
                            .iter()
                            .map(|d| {
                                J::obj(vec![
                                    ("path", J::s(tyj::path(tcx, *d))),
                                    ("name", J::s(crate::tyj::name_of(tcx, *d))),
                                    ("kind", J::s(format!("{:?}", tcx.def_kind(*d)))),
                                    ("synthetic", J::Bool(tcx.is_impl_trait_in_trait(*d))),
                                ])
                            })
                            .collect(),
                    ),
                );
            }
            DefKind::Fn | DefKind::AssocFn => {
                o.push("generics", generics_j(tcx, did));
                o.push("predicates", predicates_j(tcx, did));
                fn_like_j(tcx, ldid, &mut o);
                if let DefKind::AssocFn = kind {
                    let ai = tcx.associated_item(did);
                    o.push("trait_item", J::opt(ai.trait_item_def_id().map(|d| J::s(tyj::path(tcx, d)))));
                    o.push("has_self", J::Bool(ai.is_method()));
                }
            }
            DefKind::AssocTy => {
                if !tcx.is_impl_trait_in_trait(did) {
                    if let DefKind::Trait = tcx.def_kind(tcx.parent(did)) {
                        let b = tcx.explicit_item_bounds(did).skip_binder();
                        o.push("bounds", J::Arr(b.iter().map(|(c, _)| tyj::clause(tcx, *c)).collect()));
                    }
                }
                o.push("synthetic", J::Bool(tcx.is_impl_trait_in_trait(did)));
            }
            DefKind::Mod => {
                let children = tcx.module_children_local(ldid);
                o.push(
                    "children",
                    J::Arr(
                        children
                            .iter()
                            .map(|c| {
                                let (rk, rd) = match c.res {
                                    Res::Def(k, d) => (format!("{:?}", k), tyj::path(tcx, d)),
                                    other => (format!("{:?}", other), String::new()),
                                };
                                J::obj(vec![
                                    ("name", J::s(c.ident.as_str())),
                                    ("res_kind", J::s(rk)),
                                    ("res", J::s(rd)),
                                    ("vis", vis_j(tcx, c.vis)),
                                    ("reexport", J::Bool(!c.reexport_chain.is_empty())),
                                ])
                            })
                            .collect(),
                    ),
                );
            }
            DefKind::Use => {
                if let hir::Node::Item(item) = tcx.hir_node_by_def_id(ldid) {
                    if let hir::ItemKind::Use(p, uk) = item.kind {
                        let mut res = vec![];
                        for r in p.res.present_items() {
                            if let Res::Def(k, d) = r {
                                res.push(J::obj(vec![
                                    ("kind", J::s(format!("{:?}", k))),
                                    ("def", J::s(tyj::path(tcx, d))),
                                ]));
                            }
                        }
                        o.push("use_res", J::Arr(res));
                        o.push("use_kind", J::s(format!("{:?}", uk).split('(').next().unwrap_or("?").to_string()));
                        o.push(
                            "use_path",
                            J::s(p.segments.iter().map(|s| s.ident.to_string()).collect::<Vec<_>>().join("::")),
                        );
                    }
                }
            }
            _ => {}
        }
        defs.push(o);
    }
    J::obj(vec![
        ("crate", J::s(tcx.crate_name(rustc_hir::def_id::LOCAL_CRATE).as_str())),
        ("mode", J::s("wit")),
        ("defs", J::Arr(defs)),
    ])
}
