#!/usr/bin/env python3
"""Apply a patch to /repo, run checks, undo the patch. usage: seedrun.py <patch.diff> [--tier quick|thorough] [IDs...]"""
import subprocess
import sys
import os

ALL = ["C%02d" % i for i in range(1, 21)]


def main():
    args = sys.argv[1:]
    tier = "quick"
    if "--tier" in args:
        i = args.index("--tier")
        tier = args[i + 1]
        del args[i:i + 2]
    patch = os.path.abspath(args[0])
    ids = args[1:] or ALL
    st = subprocess.run(["git", "-C", "/repo", "status", "--porcelain", "--untracked-files=no"], capture_output=True, text=True).stdout.strip()
    if st:
        print("refusing: /repo has local modifications:\n" + st)
        return 2
    r = subprocess.run(["git", "-C", "/repo", "apply", patch], capture_output=True, text=True)
    if r.returncode != 0:
        print("patch does not apply:", r.stderr)
        return 2
    results = {}
    try:
        for pid in ids:
            p = subprocess.run(["./check", pid, tier], cwd="/verif", capture_output=True, text=True)
            viol = [l for l in p.stdout.splitlines() if l.startswith("  rule=")]
            results[pid] = (p.returncode, viol, [l for l in p.stdout.splitlines() if "CHECK-ERROR" in l])
    finally:
        subprocess.run(["git", "-C", "/repo", "checkout", "--", "."], check=True)
    fired = [pid for pid, (rc, v, e) in results.items() if rc == 1]
    errs = [pid for pid, (rc, v, e) in results.items() if rc not in (0, 1)]
    for pid in ids:
        rc, v, e = results[pid]
        if rc == 1:
            print("%s FIRES (%d findings)" % (pid, len(v)))
            for l in v[:3]:
                print("     " + l.strip()[:260])
        elif rc != 0:
            print("%s ERROR %s" % (pid, e[:1]))
    print("fired:", fired, "errors:", errs)
    return 0


if __name__ == "__main__":
    sys.exit(main())
