#!/bin/bash
# usage: tools/seed_setup.sh <round>  — prepare /tmp/seed<round>: one scratch worktree of /repo per property,
# <ID>.prop.txt (property text + one line per earlier seeded change of that property) and INSTRUCTIONS.txt.
# Nothing from /verif is copied besides the property text and those one-line notes.
r=$1; root=/tmp/seed$r
mkdir -p $root
python3 - "$r" <<'EOF'
import json, sys, os, glob
r = int(sys.argv[1]); root = "/tmp/seed%d" % r
props = {}
for l in open('/verif/properties.jsonl'):
    p = json.loads(l); props[p['id']] = p
for pid, p in props.items():
    notes = []
    for d in sorted(glob.glob('/verif/seeded/%s*' % pid)):
        notes.append(json.load(open(d + '/meta.json'))['needs_to_manifest'])
    txt = "%s — %s\n\nStatement: %s\n\nQuantifier: %s\n\n" % (pid, p['title'], p['statement'], p['quantifier']['text'])
    if notes:
        txt += ("Note: other participants have already broken this property in the following ways — do something DIFFERENT from all of them "
                "(a different mechanism, ideally in a different source file, and a different triggering input):\n")
        txt += "".join("  %d. %s\n" % (i + 1, n) for i, n in enumerate(notes))
    open('%s/%s.prop.txt' % (root, pid), 'w').write(txt)
EOF
sed "s|/tmp/seedN|$root|g" > $root/INSTRUCTIONS.txt <<'EOF'
You are helping test a verification framework by producing a deliberately *buggy variant* of an open-source Rust crate.

Work ONLY inside your scratch git worktree /tmp/seedN/<ID> (a checkout of the `entrait` repository: a proc-macro crate `entrait_macros/` plus the facade crate in `src/lib.rs`, tests in `tests/it/`, examples in `examples/`). Do not read or touch /verif or /repo or other /tmp/seedN/* directories. There is no network; use `cargo ... --offline` and `export CARGO_NET_OFFLINE=true`. Use a private target dir: `export CARGO_TARGET_DIR=/tmp/seedN/<ID>/target`.

The property you must BREAK is in /tmp/seedN/<ID>.prop.txt — read it carefully (statement, quantifier, and the note at the end about what others already did: you must do something different from all of them).

Your task: make a small, realistic source change to the crate (in `entrait_macros/src/**` or `src/lib.rs`) that breaks this property, such that
  (a) the whole workspace still compiles and the existing test-suite still passes:
      `cd /tmp/seedN/<ID> && cargo test --workspace --no-fail-fast --offline`  (40 tests) — verify this yourself;
  (b) the breakage needs something SPECIFIC to manifest — an unusual input shape, a particular combination of options / cargo features, a multi-step situation, or two cooperating sites that each look fine alone — NOT something any ordinary use would expose at once (if ordinary use exposed it, the existing tests would fail);
  (c) you provide a demonstration under /tmp/seedN/<ID>/demo/ : a tiny cargo project (e.g. `entrait = { path = "/tmp/seedN/<ID>" }`, optionally with `features = ["unimock"]`; give it its own empty `[workspace]` table; build the worktree once so that /tmp/seedN/<ID>/Cargo.lock exists and copy it into the demo so that it resolves offline; crates available offline include unimock, async-trait, tokio, mockall) with a test or program — or a `run.sh` script that exits non-zero on failure — that FAILS (test failure, wrong output, or a compile error where the property promises compilation / a successful compile where it promises rejection) with your change and PASSES on the unchanged code. Check both directions (e.g. `git diff -- entrait_macros src > /tmp/seedN/<ID>/patch.diff; git checkout -- entrait_macros src; <run demo>; git apply /tmp/seedN/<ID>/patch.diff; <run demo>`).
Think of a plausible bug a maintainer could introduce during a refactor or a well-meant improvement (an off-by-one, a wrong condition, a swapped branch, a mishandled special case, a dropped token, a lost option), not an obviously malicious edit. One coherent change (it may touch two cooperating places). Prefer a change whose trigger is an input shape that is valid and reasonable but rare.

Deliverables (leave them in place when you finish):
  - /tmp/seedN/<ID>/patch.diff : `git diff -- entrait_macros src` of your change against HEAD (the change must also remain applied in the worktree, uncommitted);
  - /tmp/seedN/<ID>/demo/ : the demonstration plus README.txt saying exactly how to run it and what to expect with and without the change (if there is a run.sh, it is what will be run; otherwise `cargo test --offline --no-fail-fast` in demo/);
  - a final message (short, at most 25 lines) summarising: which file/function you changed, what input triggers the breakage and why ordinary use does not, and the exact commands you ran with their results.
Keep builds small (disk is limited): delete /tmp/seedN/<ID>/target and the demo's target dir when you are done.
EOF
cd /repo && for i in $(seq -w 1 20); do git worktree add --detach $root/C$i HEAD -q 2>&1 | tail -1; done
git worktree list | wc -l
