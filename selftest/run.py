#!/usr/bin/env python3
"""./selftest/run.py [name-filter] — must-fire mutants and must-stay-silent refactors (not a registered check).
Edits /repo in place by exact string replacement and always restores it with `git checkout -- .`."""
import os
import subprocess
import sys

sys.path.insert(0, os.path.dirname(os.path.abspath(__file__)))
from mutants import M, SILENT  # noqa

ALL = ["C%02d" % i for i in range(1, 21)]


def clean():
    st = subprocess.run(["git", "-C", "/repo", "status", "--porcelain", "--untracked-files=no"], capture_output=True, text=True).stdout.strip()
    return not st


def apply(edits):
    for f, old, new in edits:
        p = os.path.join("/repo", f)
        s = open(p).read()
        if s.count(old) < 1:
            return "anchor not found in %s: %r" % (f, old[:50])
        open(p, "w").write(s.replace(old, new))
    return None


def run_checks(ids):
    out = {}
    for pid in ids:
        p = subprocess.run(["./check", pid, "quick"], cwd="/verif", capture_output=True, text=True)
        out[pid] = (p.returncode, [l.strip() for l in p.stdout.splitlines() if l.startswith("  rule=")],
                    [l for l in p.stdout.splitlines() if "CHECK-ERROR" in l])
    return out


def builds():
    p = subprocess.run("cd /repo && cargo build -p entrait_macros --offline 2>&1 | tail -3", shell=True, capture_output=True, text=True)
    return "error" not in p.stdout


def main():
    flt = sys.argv[1] if len(sys.argv) > 1 else ""
    if not clean():
        print("refusing: /repo has local modifications")
        return 2
    bad = 0
    for name, prop, f, old, new in M:
        if flt and flt not in name:
            continue
        try:
            err = apply([(f, old, new)])
            if err:
                print("MUTANT %-28s ANCHOR-LOST (%s)" % (name, err))
                bad += 1
                continue
            if not builds():
                print("MUTANT %-28s does not build" % name)
                bad += 1
                continue
            res = run_checks(ALL if os.environ.get("SELFTEST_ALL") else [prop])
        finally:
            subprocess.run(["git", "-C", "/repo", "checkout", "--", "."], check=True)
        rc, v, e = res[prop]
        fired = [p for p, (rc2, _, _) in res.items() if rc2 == 1]
        if rc == 1:
            print("MUTANT %-28s caught by %s: %s" % (name, ",".join(fired), v[0][:150] if v else ""))
        else:
            print("MUTANT %-28s MISSED by %s (rc=%s %s)" % (name, prop, rc, e[:1]))
            bad += 1
    for name, edits in SILENT:
        if flt and flt not in name:
            continue
        try:
            err = apply(edits)
            if err:
                print("SILENT %-28s ANCHOR-LOST (%s)" % (name, err))
                bad += 1
                continue
            if not builds():
                print("SILENT %-28s does not build" % name)
                bad += 1
                continue
            res = run_checks(ALL)
        finally:
            subprocess.run(["git", "-C", "/repo", "checkout", "--", "."], check=True)
        fired = [(p, v[:1]) for p, (rc, v, e) in res.items() if rc != 0]
        if fired:
            print("SILENT %-28s FALSE ALARM: %s" % (name, fired))
            bad += 1
        else:
            print("SILENT %-28s silent on all 20 checks" % name)
    print("selftest: %d problem(s)" % bad)
    return 1 if bad else 0


if __name__ == "__main__":
    sys.exit(main())
