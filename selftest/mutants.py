"""Single-edit variants of entrait_macros that still compile and keep the 40 tests green; each must make the
check of the named property fire (and name the instance). Applied by exact string replacement (must match once)."""
M = [
 # (name, property that must fire, file, old, new)
 ("c01_rev_args", "C01", "entrait_macros/src/fn_delegation_codegen.rs", "            .inputs\n            .iter()\n            .filter_map(|fn_arg| match fn_arg {\n                syn::FnArg::Receiver(_) => None,", "            .inputs\n            .iter()\n            .rev()\n            .filter_map(|fn_arg| match fn_arg {\n                syn::FnArg::Receiver(_) => None,"),
 ("c02_drop_fn_attrs", "C02", "entrait_macros/src/entrait_fn/mod.rs", "        #(#fn_attrs)* #fn_vis #fn_sig #fn_body", "        #fn_vis #fn_sig #fn_body"),
 ("c02_reorder_mod_items", "C02", "entrait_macros/src/entrait_fn/mod.rs", "            #(#items)*\n\n            #trait_def\n            #impl_block", "            #trait_def\n            #(#items)*\n            #impl_block"),
 # (c03_drop_where was removed: not lifting a non-path where-predicate to the trait leaves it on the method,
 #  which enforces the same requirement — the edit does not break C03, and the checks rightly stay silent)
 ("c04_always_send", "C04", "entrait_macros/src/generics.rs", "                if self.takes_self_by_value.0 {", "                if self.takes_self_by_value.0 || true {"),
 ("c04_has_bounds_first_only", "C04", "entrait_macros/src/generics.rs", "                let has_bounds = self.trait_fns.iter().any(|trait_fn| match &trait_fn.deps {", "                let has_bounds = self.trait_fns.iter().take(1).any(|trait_fn| match &trait_fn.deps {"),
 ("c05_blanket_concrete", "C05", "entrait_macros/src/trait_codegen.rs", "            TraitDependencyMode::Concrete(_) => {\n                Some(attributes::Attr(attributes::EntraitForTraitParams {", "            TraitDependencyMode::Concrete(_) if false => {\n                Some(attributes::Attr(attributes::EntraitForTraitParams {"),
 ("c06_swap_ref_borrow", "C06", "entrait_macros/src/entrait_trait/mod.rs", "                self.as_ref().borrow().#fn_ident(#(#arguments),*)", "                self.as_ref().as_ref().#fn_ident(#(#arguments),*)"),
 ("c07_target_is_t", "C07", "entrait_macros/src/entrait_trait/mod.rs", "<#impl_t::Target as #impl_trait_ident<#impl_t>>::#fn_ident(self, #(#arguments),*)", "<#impl_t as #impl_trait_ident<#impl_t>>::#fn_ident(self, #(#arguments),*)"),
 ("c08_include_private", "C08", "entrait_macros/src/input.rs", "    if let syn::Visibility::Inherited = vis {\n        // 'private' functions aren't interesting\n        return false;\n    }", "    let _ = vis;"),
 ("c09_drop_supertraits", "C09", "entrait_macros/src/trait_codegen.rs", "#trait_visibility #unsafety trait #trait_ident #params #supertraits #where_clause {", "#trait_visibility #unsafety trait #trait_ident #params #where_clause {"),
 ("c10_invert_gate", "C10", "entrait_macros/src/attributes.rs", "            if self.opts.export_value() {", "            if !self.opts.export_value() {"),
 ("c11_unmock_shift", "C11", "entrait_macros/src/attributes.rs", "                                for fn_arg in trait_fn.sig().inputs.iter() {", "                                for fn_arg in trait_fn.sig().inputs.iter().skip(2) {"),
 ("c12_ignore_maybe_send", "C12", "entrait_macros/src/trait_codegen.rs", "        if opts.future_send().0 {", "        if opts.future_send().0 || true {"),
 ("c13_always_pub", "C13", "entrait_macros/src/trait_codegen.rs", "            FnInputMode::SingleFn(_) | FnInputMode::RawTrait(_) => {\n                push_tokens!(stream, self.visibility);", "            FnInputMode::SingleFn(_) | FnInputMode::RawTrait(_) => {\n                push_tokens!(stream, syn::token::Pub::default());"),
 ("c14_unpin_future", "C14", "entrait_macros/src/trait_codegen.rs", "        sig.output = syn::parse_quote_spanned! {span=>\n            -> impl #(#bounds)+*\n        };", "        sig.output = syn::parse_quote_spanned! {span=>\n            -> impl #(#bounds)+* + Unpin\n        };"),
 ("c15_err_to_panic", "C15", "entrait_macros/src/analyze_generics.rs", "                if type_path.qself.is_some() {\n                    return Err(syn::Error::new(type_path.span(), \"No self allowed\"));\n                }", "                if type_path.qself.is_some() {\n                    panic!(\"No self allowed\");\n                }"),
 ("c16_no_retry", "C16", "entrait_macros/src/signature/fn_params.rs", "        if taken_idents.contains(&ident) {\n            generate_ident(index, attempts + 1, taken_idents)\n        } else {", "        if false {\n            generate_ident(index, attempts + 1, taken_idents)\n        } else {"),
 ("c17_bare_false", "C17", "entrait_macros/src/opt.rs", "\"export\" => Ok(Export(parse_eq_bool(input, true, span)?)),", "\"export\" => Ok(Export(parse_eq_bool(input, false, span)?)),"),
 ("c18_copy_attrs_to_trait", "C18", "entrait_macros/src/trait_codegen.rs", "            is_raw_trait\n                || matches!(", "            true\n                || matches!("),
 ("c19_bare_future", "C19", "entrait_macros/src/trait_codegen.rs", "            ::core::future::Future<Output = #output_type>", "            Future<Output = #output_type>"),
 ("c20_static_counter", "C20", "entrait_macros/src/signature/fn_params.rs", "fn autogenerate_for_non_idents(sig: &mut syn::Signature) {", "static COUNTER: std::sync::atomic::AtomicUsize = std::sync::atomic::AtomicUsize::new(0);\n\nfn autogenerate_for_non_idents(sig: &mut syn::Signature) {\n    let _n = COUNTER.fetch_add(1, std::sync::atomic::Ordering::Relaxed);"),
 ("c20_hash_iter", "C20", "entrait_macros/src/signature/fn_params.rs", "        if taken_idents.contains(&ident) {", "        if taken_idents.iter().any(|t| t == &ident) {"),
]

# Behaviour-preserving edits: no check may fire.
SILENT = [
 ("rename_helper", [("entrait_macros/src/fn_delegation_codegen.rs", "gen_delegating_fn_item", "emit_forwarding_method")]),
 ("rename_locals", [("entrait_macros/src/fn_delegation_codegen.rs", "opt_self_comma", "maybe_receiver_arg"), ("entrait_macros/src/fn_delegation_codegen.rs", "let arguments = entrait_sig", "let forwarded = entrait_sig"), ("entrait_macros/src/fn_delegation_codegen.rs", "#(#arguments),*", "#(#forwarded),*")]),
 ("shift_lines", [("entrait_macros/src/trait_codegen.rs", "pub struct TraitCodegen<'s> {", "// a comment\n// that shifts\n// every line\n\npub struct TraitCodegen<'s> {"),
                  ("entrait_macros/src/fn_delegation_codegen.rs", "/// Generate impls that call standalone generic functions", "// moved\n//\n//\n/// Generate impls that call standalone generic functions")]),
 ("quote_to_push_tokens", [("entrait_macros/src/trait_codegen.rs", "        let mut bounds: Vec<proc_macro2::TokenStream> = vec![quote! {\n            ::core::future::Future<Output = #output_type>\n        }];",
                            "        let mut first = proc_macro2::TokenStream::new();\n        push_tokens!(\n            &mut first,\n            syn::token::PathSep::default(),\n            syn::Ident::new(\"core\", Span::call_site()),\n            syn::token::PathSep::default(),\n            syn::Ident::new(\"future\", Span::call_site()),\n            syn::token::PathSep::default(),\n            syn::Ident::new(\"Future\", Span::call_site()),\n            syn::token::Lt::default(),\n            syn::Ident::new(\"Output\", Span::call_site()),\n            syn::token::Eq::default(),\n            output_type,\n            syn::token::Gt::default()\n        );\n        let mut bounds: Vec<proc_macro2::TokenStream> = vec![first];")]),
 ("extract_iterator", [("entrait_macros/src/entrait_fn/mod.rs", "    let trait_fns = input_mod\n        .items\n        .iter()\n        .filter_map(ModItem::filter_pub_fn)\n        .map(|input_fn| {",
                        "    let visible_fns = input_mod.items.iter().filter_map(ModItem::filter_pub_fn);\n    let trait_fns = visible_fns\n        .map(|input_fn| {")]),
 ("explicit_impl_deref", [("entrait_macros/src/entrait_trait/mod.rs", "                self.as_ref().#fn_ident(#(#arguments),*)", "                ::core::convert::AsRef::as_ref(self).#fn_ident(#(#arguments),*)")]),
]
