"""A queryable view of one edrv fact file: definitions, entrait expansions, attribute arguments."""
import os
import re

ENTRAIT_MACROS = ("entrait", "entrait_export", "entrait_unimock", "entrait_export_unimock")


def macro_base(name):
    return name.replace(" ", "").split("::")[-1]


def is_entrait_macro(e):
    return e["kind"] == "Attr" and macro_base(e["name"]) in ENTRAIT_MACROS


def split_top(s, sep=","):
    """Split on `sep` at nesting depth 0 of (), [], {}, <> (angle brackets only between idents)."""
    out, depth, cur = [], 0, ""
    for ch in s:
        if ch in "([{":
            depth += 1
        elif ch in ")]}":
            depth -= 1
        if ch == sep and depth == 0:
            out.append(cur)
            cur = ""
        else:
            cur += ch
    if cur.strip():
        out.append(cur)
    return [x.strip() for x in out]


OPTION_NAMES = ("no_deps", "debug", "delegate_by", "export", "mock_api", "unimock", "mockall")


class Attr:
    """Parsed `#[entrait(...)]` attribute text."""

    def __init__(self, text):
        self.text = text
        m = re.match(r"#\s*\[\s*([A-Za-z_:0-9\s]+?)\s*(\((.*)\))?\s*\]\s*$", text, re.S)
        self.ok = bool(m)
        self.macro = None
        self.positional = None  # e.g. "pub Foo"
        self.trait_vis = None
        self.trait_name = None
        self.opts = {}  # name -> value string or True (bare)
        self.order = []
        self.impl_ref = False
        if not m:
            return
        self.macro = m.group(1).replace(" ", "").split("::")[-1]
        args = m.group(3) or ""
        for i, part in enumerate(split_top(args)):
            if not part:
                continue
            if part == "?Send":
                self.opts["?Send"] = True
                self.order.append("?Send")
                continue
            mm = re.match(r"^([a-z_]+)\s*(=\s*(.*))?$", part, re.S)
            if mm and mm.group(1) in OPTION_NAMES:
                self.opts[mm.group(1)] = mm.group(3).strip() if mm.group(2) else True
                self.order.append(mm.group(1))
                continue
            if part in ("ref", "dyn"):
                self.impl_ref = True
                continue
            if i == 0:
                self.positional = part
                toks = part.split()
                self.trait_name = toks[-1]
                self.trait_vis = " ".join(toks[:-1])
                # `pub(crate) Foo` may have no space
                mv = re.match(r"^(pub\s*(\([^)]*\))?)\s*([A-Za-z_][A-Za-z_0-9]*)$", part)
                if mv:
                    self.trait_vis = re.sub(r"\s+", "", mv.group(1)).replace("in", "in ") if mv.group(1) else ""
                    self.trait_name = mv.group(3)

    def flag(self, name):
        """Explicit boolean value of an option or None when absent."""
        if name not in self.opts:
            return None
        v = self.opts[name]
        if v is True:
            return True
        return {"true": True, "false": False}.get(v, None)


class Expansion:
    """Everything one outermost `#[entrait…]` invocation produced."""

    def __init__(self, key, call_site, macro):
        self.key = key
        self.call_site = call_site
        self.macro = macro
        self.defs = []  # all defs with this outermost entrait expansion
        self.attr = None
        self.mode = None
        self.module = None  # parent module path of the invocation

    def direct(self):
        """Defs produced directly by this expansion or by nested entrait expansions only."""
        return [d for d in self.defs if all(is_entrait_macro(e) for e in d["expn"])]

    def by_kind(self, kind):
        return [d for d in self.defs if d["kind"] == kind]

    def label(self):
        return "%s:%d %s" % (self.call_site["file"], self.call_site["lo_line"], (self.attr.text if self.attr else ""))

    def ident(self):
        """A line-number-free identity: module path + attribute text."""
        return "%s %s" % (self.module, re.sub(r"\s+", " ", self.attr.text if self.attr else "?"))


class Crate:
    def __init__(self, facts, crate_dir):
        self.facts = facts
        self.dir = crate_dir
        self.defs = facts["defs"]
        self.by_path = {}
        for d in self.defs:
            self.by_path.setdefault(d["path"], []).append(d)
        self._src = {}
        self.expansions = self._group()

    def source(self, file):
        p = file if os.path.isabs(file) else os.path.join(self.dir, file)
        if p not in self._src:
            with open(p) as f:
                self._src[p] = f.read().split("\n")
        return self._src[p]

    def span_text(self, sp):
        lines = self.source(sp["file"])
        if sp["lo_line"] == sp["hi_line"]:
            return lines[sp["lo_line"] - 1][sp["lo_col"]:sp["hi_col"]]
        out = [lines[sp["lo_line"] - 1][sp["lo_col"]:]]
        for ln in range(sp["lo_line"], sp["hi_line"] - 1):
            out.append(lines[ln])
        out.append(lines[sp["hi_line"] - 1][:sp["hi_col"]])
        return "\n".join(out)

    def declared_bodyless(self, d):
        """True when the function was written WITHOUT a body (`fn f(..) -> T;`) and a foreign attribute
        macro on it supplied the body after entrait had passed the declaration through: entrait saw a
        body-less declaration, which C08 excludes from the trait."""
        foreign = [e for e in d.get("expn", []) if e.get("kind") == "Attr" and not is_entrait_macro(e)]
        if not foreign or not any(is_entrait_macro(e) for e in d["expn"]):
            return False
        cs = foreign[-1]["call_site"]
        lines = self.source(cs["file"])
        text = lines[cs["lo_line"] - 1][cs["lo_col"]:] + "\n" + "\n".join(lines[cs["lo_line"]:])
        from .expq import tokenize
        try:
            toks = tokenize(text)
        except Exception:
            return False
        depth = 0
        i = 0
        while i < len(toks):
            t = toks[i].text
            if depth == 0 and t == "#":
                # skip the attribute's bracket group
                j = i + 1
                if j < len(toks) and toks[j].text == "!":
                    j += 1
                dd = 0
                while j < len(toks):
                    if toks[j].text == "[":
                        dd += 1
                    elif toks[j].text == "]":
                        dd -= 1
                        if dd == 0:
                            break
                    j += 1
                i = j + 1
                continue
            if t in "([":
                depth += 1
            elif t in ")]":
                depth -= 1
            elif depth == 0 and t == "{":
                return False
            elif depth == 0 and t == ";":
                return True
            i += 1
        return False

    def item_kind_after(self, sp):
        """'fn' | 'mod' | 'trait' | 'impl': kind of the item an attribute (given by its span) annotates."""
        lines = self.source(sp["file"])
        text = lines[sp["hi_line"] - 1][sp["hi_col"]:] + "\n" + "\n".join(lines[sp["hi_line"]:sp["hi_line"] + 60])
        i = 0
        n = len(text)
        while i < n:
            if text[i].isspace():
                i += 1
            elif text.startswith("//", i):
                j = text.find("\n", i)
                i = n if j < 0 else j + 1
            elif text.startswith("/*", i):
                j = text.find("*/", i)
                i = n if j < 0 else j + 2
            elif text[i] == "#":
                j = text.find("[", i)
                depth = 0
                k = j
                while k < n:
                    if text[k] == "[":
                        depth += 1
                    elif text[k] == "]":
                        depth -= 1
                        if depth == 0:
                            break
                    k += 1
                i = k + 1
            else:
                break
        rest = text[i:]
        m = re.match(r"^(pub\s*(\([^)]*\))?\s*)?((?:(?:unsafe|async|const|default|auto|extern\s*(\"[^\"]*\")?)\s+)*)(trait|impl|mod|fn)\b", rest)
        if m:
            return m.group(m.lastindex)
        return "fn"

    def get(self, path):
        ds = self.by_path.get(path, [])
        return ds[0] if ds else None

    def children_of(self, path):
        return [d for d in self.defs if d.get("parent") == path]

    def _group(self):
        groups = {}
        for d in self.defs:
            outer = None
            for e in d["expn"]:  # innermost -> outermost
                if is_entrait_macro(e):
                    outer = e
            if outer is None:
                continue
            cs = outer["call_site"]
            key = (cs["file"], cs["lo_line"], cs["lo_col"], cs["hi_line"], cs["hi_col"])
            g = groups.get(key)
            if g is None:
                g = groups[key] = Expansion(key, cs, macro_base(outer["name"]))
            g.defs.append(d)
        out = []
        for key in sorted(groups):
            g = groups[key]
            try:
                g.attr = Attr(self.span_text(g.call_site))
            except (OSError, IndexError):
                g.attr = None
            paths = set(d["path"] for d in g.defs)
            roots = [d for d in g.defs if d.get("parent") not in paths and d["kind"] != "Use"]
            # the kind of the annotated item is read from the source text that follows the attribute
            # (definitions alone are ambiguous once foreign attribute macros re-expand the original item)
            g.mode = self.item_kind_after(g.call_site)
            mods = [d for d in roots if d["kind"] == "Mod"]
            inh = [d for d in roots if d["kind"] == "Impl" and d.get("of_trait") is None]
            fns = [d for d in roots if d["kind"] == "Fn"]
            tr = [d for d in roots if d["kind"] == "Trait"]
            if g.mode == "mod" and mods:
                g.module = mods[0].get("parent")
            elif g.mode == "impl" and inh:
                g.module = inh[0].get("parent_module")
            elif g.mode == "fn" and fns:
                g.module = fns[0].get("parent")
            elif tr:
                g.module = tr[0].get("parent")
            elif roots:
                g.module = roots[0].get("parent") if roots[0].get("parent_kind") == "Mod" else roots[0].get("parent_module")
            out.append(g)
        return out


def const_s(s):
    """Canonical spelling of a const generic argument (parameter indices and anon-const DefIds dropped)."""
    s = re.sub(r"/#\d+", "", s)
    if "UnevaluatedConst" in s:
        return "{const expr}"
    return s


def ty_s(t):
    """Compact, canonical string of a type JSON tree (regions erased)."""
    if t is None:
        return "?"
    k = t.get("t")
    if k == "prim":
        return t["name"]
    if k == "param":
        return t["name"]
    if k == "adt":
        args = [ty_s(a) for a in t["args"] if a.get("t") != "region"]
        return t["path"] + ("<" + ", ".join(args) + ">" if args else "")
    if k == "ref":
        return "&" + ("mut " if t["mut"] else "") + ty_s(t["inner"])
    if k == "rawptr":
        return "*" + ("mut " if t["mut"] else "const ") + ty_s(t["inner"])
    if k == "tuple":
        return "(" + ", ".join(ty_s(x) for x in t["elems"]) + ")"
    if k == "slice":
        return "[" + ty_s(t["inner"]) + "]"
    if k == "array":
        return "[" + ty_s(t["inner"]) + "; " + const_s(t["len"]) + "]"
    if k == "alias":
        args = [ty_s(a) for a in t["args"] if a.get("t") != "region"]
        if t["kind"] == "projection":
            rest = args[1:]
            return "<%s as %s%s>::%s" % (args[0] if args else "?", t["trait"],
                                         "<" + ", ".join(rest) + ">" if rest else "", t["assoc"])
        return "%s(%s)<%s>" % (t["kind"], t["def"], ", ".join(args))
    if k == "dyn":
        p = t["principal"]
        s = "dyn "
        if p:
            args = [ty_s(a) for a in p["args"] if a.get("t") != "region"]
            s += p["trait"] + ("<" + ", ".join(args) + ">" if args else "")
        for a in sorted(t["autos"]):
            s += " + " + a
        return s
    if k == "region":
        return "'_"
    if k == "const":
        return const_s(t["s"])
    if k in ("fndef", "closure", "coroutine", "coroutine_closure"):
        return "%s(%s)" % (k, t["def"])
    # fn pointers etc. arrive as rustc debug strings: bound regions are named after the DefId of the
    # item that declares them, which differs between two otherwise identical signatures
    return re.sub(r"DefId\([^)]*\)", "DefId", t.get("s", "?"))


def erase_regions_str(s):
    """Erase lifetime names from a rustc-printed type / clause string (`&'a T` -> `&T`, `'a` -> `'_`)."""
    s = re.sub(r"&'[A-Za-z_]\w* ", "&", s)
    return re.sub(r"'[A-Za-z_]\w*", "'_", s)


def subst(t, mapping):
    """Substitute type parameters by name in a type JSON tree. mapping: name -> type JSON."""
    if isinstance(t, list):
        return [subst(x, mapping) for x in t]
    if not isinstance(t, dict):
        return t
    if t.get("t") == "param" and t["name"] in mapping:
        return mapping[t["name"]]
    return {k: subst(v, mapping) for k, v in t.items()}


def mentions(t, pred):
    """Does any node of the type tree satisfy pred(node)?"""
    if isinstance(t, list):
        return any(mentions(x, pred) for x in t)
    if not isinstance(t, dict):
        return False
    if pred(t):
        return True
    return any(mentions(v, pred) for v in t.values())


def clause_s(c):
    """Canonical string of a clause JSON (regions erased), for set comparison."""
    k = c["k"]
    if k == "trait":
        args = [ty_s(a) for a in c["args"] if a.get("t") != "region"]
        return "%s: %s%s%s" % (ty_s(c["self"]), "" if c["positive"] else "!", c["trait"],
                              "<" + ", ".join(args) + ">" if args else "")
    if k == "outlives_ty":
        r = c["region"]
        return "%s: %s" % (ty_s(c["ty"]), "'static" if "static" in r else "'_")
    if k == "outlives_region":
        return "'_: '_"
    if k == "projection":
        args = [ty_s(a) for a in c["args"] if a.get("t") != "region"]
        rest = args[1:]
        return "<%s as %s%s>::%s == %s" % (args[0] if args else "?", c["trait"],
                                          "<" + ", ".join(rest) + ">" if rest else "", c["assoc"],
                                          ty_s(c["term"]) if isinstance(c["term"], dict) else c["term"])
    if k == "const_arg_has_type":
        return "const %s: %s" % (const_s(c["c"]), ty_s(c["ty"]))
    return "other: " + c.get("s", "")
