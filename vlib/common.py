"""Shared plumbing for the entrait static-verification checks."""
import hashlib
import json
import os
import subprocess
import sys
import time

VERIF = os.path.dirname(os.path.dirname(os.path.abspath(__file__)))
REPO = os.environ.get("VERIF_REPO", "/repo")
CACHE = os.path.join(VERIF, ".cache")
EVID = os.path.join(VERIF, "evidence")
REPLAY = os.path.join(EVID, "replay")
TOOLS = os.path.join(VERIF, "tools")
EDRV = os.path.join(TOOLS, "edrv", "target", "release", "edrv")
SYNTOOL = os.path.join(TOOLS, "genlint", "target", "release", "genlint")
KNOWN = os.path.join(VERIF, "known_findings.jsonl")


class CheckError(Exception):
    """The machinery itself could not run (missing anchor/fact file/floor): exit 2, never a pass."""


def log(*a):
    print(*a, flush=True)


def sh(cmd, cwd=None, env=None, timeout=3600, check=False):
    e = dict(os.environ)
    e["CARGO_NET_OFFLINE"] = "true"
    if env:
        e.update(env)
    p = subprocess.run(cmd, cwd=cwd, env=e, stdout=subprocess.PIPE, stderr=subprocess.PIPE,
                       text=True, timeout=timeout, shell=isinstance(cmd, str))
    if check and p.returncode != 0:
        raise CheckError("command failed (%s): %s\n%s" % (p.returncode, cmd, (p.stderr or "")[-3000:]))
    return p


_sysroot = None


def nightly_sysroot():
    global _sysroot
    if _sysroot is None:
        _sysroot = sh(["rustc", "+nightly", "--print", "sysroot"], check=True).stdout.strip()
    return _sysroot


def hash_files(paths):
    h = hashlib.sha256()
    for p in sorted(paths):
        h.update(p.encode())
        h.update(b"\0")
        try:
            with open(p, "rb") as f:
                h.update(f.read())
        except OSError:
            h.update(b"<missing>")
        h.update(b"\0")
    return h.hexdigest()


def walk_files(root, exts=None, skip_dirs=("target", ".git")):
    out = []
    if os.path.isfile(root):
        return [root]
    for d, dirs, files in os.walk(root):
        dirs[:] = [x for x in dirs if x not in skip_dirs]
        for f in files:
            if exts is None or os.path.splitext(f)[1] in exts:
                out.append(os.path.join(d, f))
    return out


def repo_source_files():
    files = []
    for rel in ("Cargo.toml", "Cargo.lock", "src", "entrait_macros/Cargo.toml", "entrait_macros/src"):
        files += walk_files(os.path.join(REPO, rel))
    return files


_repo_hash = None


def repo_hash():
    global _repo_hash
    if _repo_hash is None:
        _repo_hash = hash_files(repo_source_files())
    return _repo_hash


_aux_hash = None


def aux_hash():
    """Hash of the helper crates every witness crate may path-depend on (mockall stub, `once`)."""
    global _aux_hash
    if _aux_hash is None:
        files = []
        for rel in ("witness/stubs", "witness/helpers"):
            files += [p for p in walk_files(os.path.join(VERIF, rel)) if "/target/" not in p]
        _aux_hash = hash_files(files)
    return _aux_hash


def file_hash(p):
    return hash_files([p])


# ----------------------------------------------------------------------------------------
# findings / evidence


class Finding:
    """One rule violation. `key` names the construct (never a line number); `info` is free text."""

    def __init__(self, prop, rule, key, msg, where=None, data=None):
        self.prop = prop
        self.rule = rule
        self.key = key
        self.msg = msg
        self.where = where
        self.data = data

    def ident(self):
        return (self.prop, self.rule, self.key)

    def to_json(self):
        return {"property": self.prop, "rule": self.rule, "key": self.key, "msg": self.msg,
                "where": self.where, "data": self.data}


def load_known():
    known = {}
    fixed = []
    if not os.path.exists(KNOWN):
        return known, fixed
    with open(KNOWN) as f:
        for line in f:
            line = line.strip()
            if not line or line.startswith("#"):
                continue
            if line.startswith("fixed:"):
                fixed.append(line)
                continue
            rec = json.loads(line)
            known[(rec["property"], rec["rule"], rec["key"])] = rec
    return known, fixed


class Report:
    """Collects what a check analysed and what it found; writes evidence; decides the exit code."""

    def __init__(self, prop, tier, level):
        self.prop = prop
        self.tier = tier
        self.level = level
        self.t0 = time.time()
        self.findings = []
        self.coverage = {}
        self.assumptions = []
        self.samples = []
        self.notes = []
        self.seed = int(os.environ.get("VERIF_SEED", "0") or 0)
        self.counters = {}

    def count(self, name, n=1):
        self.counters[name] = self.counters.get(name, 0) + n

    def sample(self, s, cap=12):
        if len(self.samples) < cap:
            self.samples.append(s)

    def add(self, rule, key, msg, where=None, data=None):
        f = Finding(self.prop, rule, key, msg, where, data)
        # de-duplicate on identity
        if any(x.ident() == f.ident() for x in self.findings):
            return
        self.findings.append(f)

    def note(self, s):
        self.notes.append(s)
        log("  note:", s)

    def require(self, cond, what):
        if not cond:
            raise CheckError(what)

    def floor(self, name, floor):
        got = self.counters.get(name, 0)
        if got < floor and self.findings:
            # witnesses were dropped because they no longer compile — that is already reported as a
            # finding; the floor guards against *silent* vacuity only
            self.note("instance count for %s is %d (floor %d) because failing witnesses were skipped" % (name, got, floor))
            return
        if got < floor:
            raise CheckError("instance count for %s fell below the floor: %d < %d (a rule matching "
                             "too few sites passes vacuously)" % (name, got, floor))

    def finish(self):
        known, _fixed = load_known()
        new = []
        nknown = 0
        for f in self.findings:
            if f.ident() in known:
                nknown += 1
                log("KNOWN-FINDING: property=%s %s %s — %s" % (f.prop, f.rule, f.key, f.msg))
            else:
                new.append(f)
        os.makedirs(REPLAY, exist_ok=True)
        for i, f in enumerate(new):
            rp = os.path.join(REPLAY, "%s-%d.json" % (self.prop, i))
            with open(rp, "w") as fh:
                json.dump({"finding": f.to_json(), "rerun": "./check %s %s" % (self.prop, self.tier),
                           "repo_hash": repo_hash()}, fh, indent=1)
            log("  rule=%s key=%s at %s: %s" % (f.rule, f.key, f.where, f.msg))
            log("VIOLATION property=%s replay=%s" % (self.prop, rp))
        cov = dict(self.coverage)
        cov.setdefault("samples", self.samples[:12] if self.samples else ["(none recorded)"])
        cov["counters"] = self.counters
        cov["notes"] = self.notes[:40]
        cov["known_findings_reported"] = nknown
        ev = {
            "property_id": self.prop,
            "tier": self.tier,
            "seed": self.seed,
            "level": self.level,
            "coverage": cov,
            "assumptions": self.assumptions,
            "wall_s": round(time.time() - self.t0, 2),
            "violations": len(new),
        }
        os.makedirs(EVID, exist_ok=True)
        tmp = os.path.join(EVID, ".%s.json.tmp" % self.prop)
        with open(tmp, "w") as fh:
            json.dump(ev, fh, indent=1)
        os.replace(tmp, os.path.join(EVID, "%s.json" % self.prop))
        log("%s %s: %d new finding(s), %d known; %.1fs" % (self.prop, self.tier, len(new), nknown,
                                                          time.time() - self.t0))
        return 1 if new else 0
