"""Build fact files by compiling a crate under the edrv driver (nightly, offline)."""
import json
import os
import re
import glob
import shutil
import time

from .common import (CACHE, EDRV, REPO, CheckError, aux_hash, hash_files, log, nightly_sysroot, repo_hash, sh,
                     walk_files)

TARGET = os.path.join(CACHE, "target")
FACTS = os.path.join(CACHE, "facts")


def _crate_hash(crate_dir):
    files = [p for p in walk_files(crate_dir) if "/target/" not in p]
    return hash_files(files)


def _edrv_hash():
    if not os.path.exists(EDRV):
        raise CheckError("edrv driver is not built (run MANIFEST.setup_cmd): %s" % EDRV)
    return hash_files([EDRV])


def parse_cargo_json(stdout):
    """Return the list of compiler diagnostics (dicts) from `--message-format=json` output."""
    out = []
    for line in stdout.splitlines():
        line = line.strip()
        if not line.startswith("{"):
            continue
        try:
            m = json.loads(line)
        except ValueError:
            continue
        if m.get("reason") == "compiler-message":
            msg = m["message"]
            out.append({
                "level": msg.get("level"),
                "code": (msg.get("code") or {}).get("code"),
                "message": msg.get("message"),
                "spans": [{"file": s["file_name"], "line": s["line_start"], "line_end": s["line_end"],
                           "col": s["column_start"], "primary": s["is_primary"],
                           "expansion": _outer_macro(s)}
                          for s in msg.get("spans", [])],
                "children": [c.get("message") for c in msg.get("children", [])],
                "package": m.get("package_id", ""),
                "rendered": (msg.get("rendered") or "")[:1500],
            })
    return out


def _outer_macro(span):
    e = span.get("expansion")
    name = None
    while e:
        name = e.get("macro_decl_name")
        e = (e.get("span") or {}).get("expansion")
    return name


def run_driver(crate_dir, crate_name, mode="wit", features=(), cfgs=(), cargo_args=(), only=None,
               quiet=True, pkg_args=(), manifest_dir=None):
    """Compile `crate_dir` under the driver. Returns (facts or None, diagnostics, wall_s)."""
    os.makedirs(FACTS, exist_ok=True)
    os.makedirs(TARGET, exist_ok=True)
    key = hash_files([])  # placeholder to keep type
    import hashlib
    h = hashlib.sha256()
    for part in (repo_hash(), aux_hash(), _crate_hash(crate_dir), _edrv_hash(), mode, ",".join(features),
                 " ".join(cfgs), " ".join(cargo_args), " ".join(pkg_args), crate_name):
        h.update(part.encode())
        h.update(b"|")
    key = h.hexdigest()[:32]
    cached = os.path.join(FACTS, key + ".json")
    cached_diag = os.path.join(FACTS, key + ".diag.json")
    hit = os.path.exists(cached_diag) and not os.environ.get("VERIF_NO_CACHE")
    if hit:
        with open(cached_diag) as f:
            diags = json.load(f)
        # a successful compile has a fact file next to its diagnostics; if pruning separated the pair, recompute
        if not os.path.exists(cached) and not any(d["level"] in ("error", "error: internal compiler error") for d in diags):
            hit = False
    if hit:
        facts = None
        for used in (cached_diag, cached):
            try:
                os.utime(used, None)   # least-recently-used pruning keys on mtime
            except OSError:
                pass
        if os.path.exists(cached):
            with open(cached) as f:
                facts = json.load(f)
        return facts, diags, 0.0
    # make sure the driver really runs for the primary crate: drop its fingerprints
    for fp in glob.glob(os.path.join(TARGET, "debug", ".fingerprint", crate_name.replace("_", "?") + "-*")):
        shutil.rmtree(fp, ignore_errors=True)
    outdir = os.path.join(FACTS, "out-" + key)
    shutil.rmtree(outdir, ignore_errors=True)
    os.makedirs(outdir)
    env = {
        "LD_LIBRARY_PATH": nightly_sysroot() + "/lib",
        "EDRV_OUT": outdir,
        "EDRV_MODE": mode,
        "EDRV_CFG": " ".join(cfgs),
        "EDRV_ONLY": only or crate_name,
        "RUSTFLAGS": "-Zmir-opt-level=0 -Awarnings",
        "RUSTC_WORKSPACE_WRAPPER": EDRV,
        "CARGO_TARGET_DIR": TARGET,
        "CARGO_INCREMENTAL": "0",
    }
    cmd = ["cargo", "+nightly", "check", "--offline", "--message-format=json"]
    if features:
        cmd += ["--features", ",".join(features)]
    cmd += list(pkg_args) + list(cargo_args)
    t0 = time.time()
    p = sh(cmd, cwd=manifest_dir or crate_dir, env=env, timeout=1800)
    wall = time.time() - t0
    diags = [d for d in parse_cargo_json(p.stdout)]
    errors = [d for d in diags if d["level"] in ("error", "error: internal compiler error")]
    fact_path = os.path.join(outdir, crate_name + ".json")
    facts = None
    if p.returncode == 0:
        if not os.path.exists(fact_path):
            raise CheckError("driver produced no fact file for %s (cargo skipped the wrapper?)\n%s"
                             % (crate_name, p.stderr[-2000:]))
        with open(fact_path) as f:
            facts = json.load(f)
        os.replace(fact_path, cached)
    else:
        if not errors:
            raise CheckError("cargo failed without compiler diagnostics for %s:\n%s" % (crate_name, p.stderr[-3000:]))
        if any("internal compiler error" in (d["level"] or "") or "edrv" in (d["message"] or "") for d in diags) \
                or "internal compiler error" in p.stderr:
            raise CheckError("the driver crashed on %s:\n%s" % (crate_name, p.stderr[-3000:]))
    shutil.rmtree(outdir, ignore_errors=True)
    with open(cached_diag, "w") as f:
        json.dump(diags, f)
    if not quiet:
        log("  compiled %s [%s %s] in %.1fs: %s" % (crate_name, ",".join(features), " ".join(cfgs), wall,
                                                    "ok" if facts else "%d errors" % len(errors)))
    return facts, diags, wall


def module_of_file(path):
    """Witness crates keep one top-level module per file: src/<mod>.rs or src/<mod>/..."""
    path = path.replace("\\", "/")
    if "src/" not in path:
        return None
    rel = path.split("src/", 1)[1]
    first = rel.split("/")[0]
    if first.endswith(".rs"):
        first = first[:-3]
    if first in ("lib", "main"):
        return None
    return first


def build_with_skips(crate_dir, crate_name, features=(), cfgs=(), max_rounds=4, quiet=False, attribute=None):
    """Compile a witness crate; modules that fail to compile are attributed by file, skipped with
    `--cfg skip_<module>`, and the crate is compiled again so the survivors reach the analyses.
    Returns (facts, failures: {module: [diagnostics]}, wall_s)."""
    skips = []
    failures = {}
    total = 0.0
    for _ in range(max_rounds):
        facts, diags, wall = run_driver(crate_dir, crate_name, features=features,
                                        cfgs=list(cfgs) + ["skip_" + m for m in skips], quiet=quiet)
        total += wall
        if facts is not None:
            return facts, failures, total
        errors = [d for d in diags if d["level"] == "error"]
        newly = set()
        for d in errors:
            mods = set()
            for s in d["spans"]:
                if s["primary"]:
                    m = attribute(s) if attribute else module_of_file(s["file"])
                    if m:
                        mods.add(m)
            if not mods:
                if d["message"].startswith("aborting due to") or d["message"].startswith("could not compile"):
                    continue
                raise CheckError("compile error in witness crate %s that cannot be attributed to a module: %s"
                                 % (crate_name, d["rendered"] or d["message"]))
            for m in mods:
                failures.setdefault(m, []).append(d)
                newly.add(m)
        newly -= set(skips)
        if not newly:
            raise CheckError("witness crate %s fails to compile even after skipping %s" % (crate_name, skips))
        skips += sorted(newly)
    raise CheckError("witness crate %s: too many skip rounds" % crate_name)


def parse_or_panic(diag):
    """True for a diagnostic that says the macro's OUTPUT did not parse, or that the macro panicked
    (as opposed to a type / resolution error in well-formed output, which carries an error code)."""
    if diag.get("code"):
        return False
    texts = [diag.get("message") or ""] + [c or "" for c in (diag.get("children") or [])]
    return any(re.search(r"panicked|^expected |^unexpected |macro expansion ignores|^unknown start of token|^mismatched closing|"
                         r"^unclosed delimiter|^this file contains an unclosed|^incorrect close delimiter", t) for t in texts)


def prune_cache(cap_bytes=None):
    """The fact / expansion caches are keyed by content, so every edited state of /repo leaves entries behind that
    nothing will read again. Keep the most recently used ones up to a size cap (default 6 GB, VERIF_CACHE_CAP_MB)."""
    from .common import CACHE
    if cap_bytes is None:
        cap_bytes = int(os.environ.get("VERIF_CACHE_CAP_MB", "6000")) * 1024 * 1024
    entries = []
    total = 0
    for sub in ("facts", "expanded"):
        d = os.path.join(CACHE, sub)
        try:
            with os.scandir(d) as it:
                for e in it:
                    try:
                        st = e.stat(follow_symlinks=False)
                    except OSError:
                        continue
                    if e.is_dir(follow_symlinks=False):
                        # leftover driver output directories of interrupted runs
                        if e.name.startswith("out-") and time.time() - st.st_mtime > 3600:
                            shutil.rmtree(e.path, ignore_errors=True)
                        continue
                    entries.append((st.st_mtime, st.st_size, e.path))
                    total += st.st_size
        except FileNotFoundError:
            pass
    if total <= cap_bytes:
        return 0
    # files of one cache key (`<key>.json`, `<key>.diag.json`, `<key>.rs`, `<key>.fail.json`) go together
    groups = {}
    for mtime, size, path in entries:
        k = os.path.join(os.path.dirname(path), os.path.basename(path).split(".")[0])
        g = groups.setdefault(k, [0.0, 0, []])
        g[0] = max(g[0], mtime)
        g[1] += size
        g[2].append(path)
    freed = 0
    for mtime, size, paths in sorted(groups.values()):
        if total - freed <= cap_bytes * 0.7:
            break
        for path in paths:
            try:
                os.unlink(path)
            except OSError:
                pass
        freed += size
    return freed


def stable_failures(crate_dir, crate_name, features=(), cfgs=(), attribute=None, max_rounds=6):
    """Type-check the crate with the DEFAULT (stable) toolchain as well — the one users build with. proc_macro2 behaves
    differently there (no `Span::join`: the span of a multi-token node is the span of its FIRST token), which matters
    for macro hygiene. Returns {module: [diagnostics]} of modules that fail to compile; cached by content."""
    import hashlib
    os.makedirs(FACTS, exist_ok=True)
    h = hashlib.sha256()
    for part in (repo_hash(), aux_hash(), _crate_hash(crate_dir), "stable", ",".join(features), " ".join(cfgs), crate_name):
        h.update(part.encode())
        h.update(b"|")
    cached = os.path.join(FACTS, h.hexdigest()[:32] + ".stable.json")
    if os.path.exists(cached) and not os.environ.get("VERIF_NO_CACHE"):
        try:
            os.utime(cached, None)
        except OSError:
            pass
        with open(cached) as f:
            return json.load(f)
    skips = []
    failures = {}
    for _ in range(max_rounds):
        flags = "-Awarnings " + " ".join("--cfg %s" % c for c in list(cfgs) + ["skip_" + m for m in skips])
        cmd = ["cargo", "check", "--offline", "--message-format=json"]
        if features:
            cmd += ["--features", ",".join(features)]
        p = sh(cmd, cwd=crate_dir, env={"RUSTFLAGS": flags, "CARGO_TARGET_DIR": os.path.join(os.path.dirname(FACTS), "target-stable")}, timeout=1800)
        diags = [d for d in parse_cargo_json(p.stdout)]
        errors = [d for d in diags if d["level"] == "error"]
        if p.returncode == 0 or not errors:
            break
        newly = set()
        for d in errors:
            for sp in d["spans"]:
                if sp["primary"]:
                    m = attribute(sp) if attribute else module_of_file(sp["file"])
                    if m:
                        failures.setdefault(m, []).append(d)
                        newly.add(m)
        newly -= set(skips)
        if not newly:
            break
        skips += sorted(newly)
    with open(cached, "w") as f:
        json.dump(failures, f)
    return failures
