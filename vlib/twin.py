"""Twin diff: the expansion of a witness crate vs the expansion of the same crate with every
`#[entrait…]` attribute replaced by a marker item. Every item of the twin must occur, token for
token and in order, in the real expansion; what the macro adds must sit where C02 says."""
import os
import re
import shutil

from .common import CACHE, CheckError
from .expq import (ENTRAIT_ATTR_RE, Item, expand, items_of, parse_tts, text_of, tokenize, flat)
from .model import Attr

MARK = "__entrait_mark_"


def make_marked_twin(crate_dir, name):
    """Copy the crate; replace the k-th `#[entrait…]` attribute of each file by
    `macro_rules! __entrait_mark_<k> { () => {} }` (an item of its own, so the annotated item's
    tokens are exactly the user's)."""
    dst = os.path.join(CACHE, "gen", name)
    shutil.rmtree(dst, ignore_errors=True)
    os.makedirs(os.path.join(dst, "src"))
    for f in os.listdir(crate_dir):
        p = os.path.join(crate_dir, f)
        if os.path.isfile(p):
            text = open(p).read()
            if f == "Cargo.toml":
                text = text.replace('path = "../', 'path = "%s/' % os.path.dirname(crate_dir))
                text = re.sub(r'name = "(\w+)"', r'name = "\1_twin"', text, count=1)
            open(os.path.join(dst, f), "w").write(text)
    attrs = {}
    for f in sorted(os.listdir(os.path.join(crate_dir, "src"))):
        if not f.endswith(".rs"):
            continue
        src = open(os.path.join(crate_dir, "src", f)).read()
        if re.search(r"^//! twin: skip", src, re.M):
            # attribute inside a macro definition: the file is copied as is and not walked
            open(os.path.join(dst, "src", f), "w").write(src)
            attrs[f[:-3]] = None
            continue
        out = []
        rem = []
        i = 0
        while True:
            m = ENTRAIT_ATTR_RE.search(src, i)
            if not m:
                out.append(src[i:])
                break
            out.append(src[i:m.start()])
            j = src.index("[", m.start())
            depth = 0
            k = j
            while True:
                ch = src[k]
                if ch == "[":
                    depth += 1
                elif ch == "]":
                    depth -= 1
                    if depth == 0:
                        break
                k += 1
            text = src[src.index("#", m.start()):k + 1]
            out.append("macro_rules! %s%d { () => {} }" % (MARK, len(rem)))
            i = k + 1
            # an `#[async_trait]` directly below entrait is consumed by entrait (re-applied to what it
            # generates, not to the original): drop it from the twin as well so the twin keeps the
            # user's `async fn`s as written
            m2 = re.match(r"\s*#\[\s*(?:::)?(?:\w+\s*::\s*)*async_trait(?:\([^\]]*\))?\s*\]", src[i:])
            if m2:
                i += m2.end()
                text += " #[async_trait]"
            rem.append(text)
        attrs[f[:-3]] = rem
        open(os.path.join(dst, "src", f), "w").write("".join(out))
    return dst, attrs


class Pair:
    def __init__(self, module, attr, t, r, kind, name, generated):
        self.module = module  # list of module names
        self.attr = attr      # model.Attr or None
        self.t = t
        self.r = r
        self.kind = kind
        self.name = name
        self.generated = generated  # real items attributed to this original


class Walker:
    def __init__(self, report, rule="W-TWIN"):
        self.report = report
        self.rule = rule
        self.pairs = []
        self.compared = 0

    def finding(self, key, msg, where=None, data=None):
        self.report.add(self.rule, key, msg, where=where, data=data)

    def walk(self, T, R, path, attrs, in_entraited_mod=False):
        """T, R: Item lists of the same module in twin and real expansion."""
        j = 0
        pending = None
        carried = []
        last_pair = None
        last_entraited = None
        mpath = "::".join(path)
        for t in T:
            kind, name = t.kind_and_name()
            if kind == "macro_rules" and name and name.startswith(MARK):
                idx = int(name[len(MARK):])
                text = attrs[idx] if idx < len(attrs) else ""
                pending = Attr(text.replace(" #[async_trait]", ""))
                pending.async_trait = text.endswith("#[async_trait]")
                carried = [x for a in t.attrs for x in a]  # attributes written above #[entrait]
                continue
            if carried:
                t = Item(carried + t.tts)
                carried = []
            self.compared += 1
            key = "%s %s %s" % (mpath, kind, name)
            # find the counterpart in R[j:]
            k = None
            for cand in range(j, len(R)):
                if self.matches(t, R[cand], kind, name, pending):
                    k = cand
                    break
            if k is None:
                what = self.describe_mismatch(t, R[j:], kind, name)
                self.finding(key + " original", "original item `%s %s` of `%s` is missing from the expansion or was altered: %s"
                             % (kind, name, mpath, what), where="witness %s.rs" % (path[0] if path else "?"))
                pending = None
                continue
            gen = R[j:k]
            if gen:
                if last_entraited is not None:
                    # (items emitted by a foreign attribute macro on the original may sit in between)
                    last_entraited.generated.extend(gen)
                else:
                    self.finding(key + " before", "%d generated item(s) appear in `%s` before/without an entraited original (first: `%s`)"
                                 % (len(gen), mpath, " ".join(gen[0].words()[:6])))
            pair = Pair(path, pending, t, R[k], kind, name, [])
            self.pairs.append(pair)
            last_pair = pair
            if pending is not None:
                last_entraited = pair
            if pending is not None:
                self.check_entraited(pair, key, attrs)
            elif kind == "mod" and t.body_group() is not None:
                self.walk(items_of(t.body_group().items), items_of(R[k].body_group().items), path + [name], attrs)
            j = k + 1
            pending = None
        tail = R[j:]
        if tail:
            if last_entraited is not None and not in_entraited_mod:
                last_entraited.generated.extend(tail)
            elif in_entraited_mod:
                self.tail = tail
                return tail
            else:
                self.finding("%s tail" % mpath, "%d generated item(s) at the end of `%s` without an entraited original (first: `%s`)"
                             % (len(tail), mpath, " ".join(tail[0].words()[:6])))
        return []

    def matches(self, t, r, kind, name, pending):
        rk, rn = r.kind_and_name()
        if pending is None:
            if kind == "mod" and t.body_group() is not None:
                return rk == "mod" and rn == name and r.attr_texts() == t.attr_texts() and text_of(t.header()) == text_of(r.header())
            if kind == "fn" and any(x.startswith(MARK) for x in flat(t.tts)):
                # entrait attributes INSIDE a function body (block-local items): the function is not itself an
                # entraited item and its body is not walked
                return rk == "fn" and rn == name
            return t.text() == r.text()
        # entraited original
        if kind == "fn":
            return rk == "fn" and rn == name
        if kind == "mod":
            return rk == "mod" and rn == name
        if kind == "trait":
            return rk == "trait" and rn == name
        if kind == "impl":
            return rk == "impl" and flat(r.header()) == self.inherent_header(t)
        return t.text() == r.text()

    @staticmethod
    def inherent_header(t):
        th = flat(t.header())
        if "for" in th:
            return th[:th.index("impl") + 1] + th[th.index("for") + 1:]
        return th

    def describe_mismatch(self, t, rs, kind, name):
        for r in rs:
            rk, rn = r.kind_and_name()
            if rk == kind and rn == name:
                a, b = flat(t.tts), flat(r.tts)
                for i, (x, y) in enumerate(zip(a, b)):
                    if x != y:
                        return "first difference at token %d: `%s` became `%s` (…%s…)" % (i, x, y, " ".join(b[max(0, i - 4):i + 4]))
                return "length differs: %d vs %d tokens (%s)" % (len(a), len(b), " ".join((a if len(a) > len(b) else b)[min(len(a), len(b)):][:8]))
        return "no item of that kind and name remains"

    def check_entraited(self, pair, key, attrs):
        t, r = pair.t, pair.r
        if pair.kind == "fn":
            if t.text() != r.text():
                self.finding(key + " fn-altered", "entraited function `%s` was not re-emitted unchanged: %s"
                             % (pair.name, self.describe_mismatch(t, [r], "fn", pair.name)))
        elif pair.kind == "mod":
            if t.attr_texts() != r.attr_texts() or text_of(t.header()) != text_of(r.header()):
                self.finding(key + " mod-header", "module header/attributes changed: `%s` -> `%s`"
                             % (text_of(t.attrs and sum(t.attrs, []) or []) + " " + text_of(t.header()),
                                text_of(r.attrs and sum(r.attrs, []) or []) + " " + text_of(r.header())))
            sub = Walker(self.report, self.rule)
            tail = sub.walk(items_of(t.body_group().items), items_of(r.body_group().items), pair.module + [pair.name], attrs,
                            in_entraited_mod=True)
            self.compared += sub.compared
            self.pairs.extend(sub.pairs)
            pair.inner_generated = tail
        elif pair.kind == "impl":
            ti = items_of(t.body_group().items)
            ri = items_of(r.body_group().items)
            if [x.text() for x in ti] != [x.text() for x in ri]:
                self.finding(key + " impl-items", "items of the entraited impl block are not re-emitted unchanged and in order inside the inherent impl: %s"
                             % self.first_diff(ti, ri))
            self.compared += len(ti)
            # header: `[unsafe] impl Trait for Type` -> `[unsafe] impl Type`
            th = [x for x in flat(t.header())]
            rh = [x for x in flat(r.header())]
            if "for" in th:
                want = th[:th.index("impl") + 1] + th[th.index("for") + 1:]
            else:
                want = th
            if rh != want:
                self.finding(key + " impl-header", "inherent impl header is `%s`, expected `%s`" % (" ".join(rh), " ".join(want)))
            ta = [a for a in t.attr_texts() if "async_trait" not in a]
            if r.attr_texts() != ta:
                self.finding(key + " impl-attrs", "attributes of the impl block changed: %s -> %s" % (t.attr_texts(), r.attr_texts()))

    def first_diff(self, ti, ri):
        for a, b in zip(ti, ri):
            if a.text() != b.text():
                return "`%s` vs `%s`" % (a.text()[:120], b.text()[:120])
        return "%d vs %d items" % (len(ti), len(ri))


def load_pair(report, crate_dir, crate_name, config_features=(), cfgs=()):
    """Expand the crate and its marked twin; returns (real top items, twin top items, attrs per file).
    A witness module whose expansion does not parse is dropped from both sides and reported (as a
    finding when the module speaks for the report's property)."""
    from .corpus import module_props
    failures = {}
    real = expand(crate_dir, crate_name, features=config_features, cfgs=cfgs, failures=failures)
    for mod, msg in sorted(failures.items()):
        text = "the macro's output for witness module `%s` does not parse: %s" % (mod, msg)
        if report.prop in module_props(crate_dir, mod):
            report.add("W-parse", "%s/%s" % (os.path.basename(crate_dir), mod), text, where="src/%s.rs" % mod)
        else:
            report.note("skipped (belongs to %s): %s" % (",".join(sorted(module_props(crate_dir, mod))), text))
    twin_dir, attrs = make_marked_twin(crate_dir, os.path.basename(crate_dir) + "_twin")
    twin = expand(twin_dir, crate_name + "_twin", features=config_features,
                  cfgs=tuple(cfgs) + tuple("skip_" + m for m in sorted(failures)))
    R = items_of(parse_tts(tokenize(real)))
    T = items_of(parse_tts(tokenize(twin)))
    return R, T, attrs
