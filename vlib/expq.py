"""W-ast: token-level queries over `-Zunpretty=expanded` output (and over witness sources).

A small Rust tokenizer + token-tree parser + item splitter; deliberately not a Rust parser: the rules
only need token identity of items, item boundaries, `mod` nesting and trait bodies.
"""
import hashlib
import os
import re
import shutil

from .common import CACHE, CheckError, aux_hash, hash_files, nightly_sysroot, repo_hash, sh, walk_files

EXPDIR = os.path.join(CACHE, "expanded")
TARGET = os.path.join(CACHE, "target-expand")


def expand(crate_dir, crate_name, features=(), cfgs=(), allow_errors=True, failures=None):
    """Return the pretty-printed expansion of the crate's lib target (cached by content hash).

    `failures` (a dict) switches on module skipping: when the macro's output for a witness module does
    not even parse, rustc prints no expansion at all; the offending module (named by the diagnostic's
    primary span `src/<module>.rs`) is dropped with `--cfg skip_<module>` and the expansion retried.
    Each dropped module is recorded as failures[module] = first error message."""
    import json
    os.makedirs(EXPDIR, exist_ok=True)
    h = hashlib.sha256()
    files = [p for p in walk_files(crate_dir) if "/target/" not in p]
    for part in (repo_hash(), aux_hash(), hash_files(files), ",".join(features), " ".join(cfgs), crate_name,
                 "skips" if failures is not None else ""):
        h.update(part.encode())
        h.update(b"|")
    key = h.hexdigest()[:32]
    out = os.path.join(EXPDIR, key + ".rs")
    fout = os.path.join(EXPDIR, key + ".fail.json")
    if os.path.exists(out) and not os.environ.get("VERIF_NO_CACHE"):
        try:
            os.utime(out, None)   # least-recently-used pruning keys on mtime
        except OSError:
            pass
        if failures is not None and os.path.exists(fout):
            failures.update(json.load(open(fout)))
        with open(out) as f:
            return f.read()
    skipped = {}
    while True:
        cmd = ["cargo", "+nightly", "rustc", "--offline", "--lib"]
        if features:
            cmd += ["--features", ",".join(features)]
        cmd += ["--", "-Zunpretty=expanded", "-Awarnings"]
        for c in list(cfgs) + ["skip_" + m for m in sorted(skipped)]:
            cmd += ["--cfg", c]
        p = sh(cmd, cwd=crate_dir, env={"CARGO_TARGET_DIR": TARGET}, timeout=1800)
        text = p.stdout
        if "fn " in text or "mod " in text or "trait " in text:
            break
        bad = None
        if failures is not None:
            # first error whose primary span lies in a module file of the crate
            m = re.search(r"^error[^\n]*\n(?:[^\n]*\n)*?\s*--> src/(\w+)\.rs:(\d+)", p.stderr, re.M)
            if m and m.group(1) != "lib" and m.group(1) not in skipped:
                bad = m.group(1)
                first = re.search(r"^error[^\n]*", p.stderr, re.M).group(0)
                skipped[bad] = "%s (src/%s.rs:%s)" % (first, bad, m.group(2))
        if bad is None:
            raise CheckError("expansion of %s produced no output:\n%s" % (crate_name, p.stderr[-2000:]))
    if p.returncode != 0 and not allow_errors:
        raise CheckError("expansion of %s failed:\n%s" % (crate_name, p.stderr[-2000:]))
    with open(out, "w") as f:
        f.write(text)
    if failures is not None:
        with open(fout, "w") as f:
            json.dump(skipped, f)
        failures.update(skipped)
    return text


# ----------------------------------------------------------------------------------------
# tokenizer

TOKEN_RE = re.compile(r"""
    (?P<ws>\s+)
  | (?P<doc>//[/!][^\n]*)
  | (?P<lc>//[^\n]*)
  | (?P<bc>/\*.*?\*/)
  | (?P<rawstr>b?r(?P<hashes>\#*)"(?:.|\n)*?"(?P=hashes))
  | (?P<str>b?"(?:[^"\\]|\\.|\\\n)*")
  | (?P<lifetime>'[A-Za-z_][A-Za-z0-9_]*(?!'))
  | (?P<char>b?'(?:[^'\\]|\\.[^']*)')
  | (?P<ident>(?:r\#)?[A-Za-z_][A-Za-z0-9_]*)
  | (?P<num>[0-9][A-Za-z0-9_]*(?:\.[0-9][A-Za-z0-9_]*)?)
  | (?P<punct>[-+*/%^!&|=<>@.,;:\#$?~()\[\]{}\\])
""", re.X | re.S)


class Tok:
    __slots__ = ("kind", "text", "line")

    def __init__(self, kind, text, line):
        self.kind = kind
        self.text = text
        self.line = line

    def __repr__(self):
        return self.text


def tokenize(src):
    toks = []
    pos = 0
    line = 1
    n = len(src)
    while pos < n:
        m = TOKEN_RE.match(src, pos)
        if not m:
            raise CheckError("tokenizer: cannot tokenize at line %d: %r" % (line, src[pos:pos + 40]))
        kind = m.lastgroup
        if kind == "hashes":
            kind = "rawstr"
        text = m.group(0)
        if kind == "doc":
            # `/// text` is the attribute `#[doc = " text"]` (this is also how proc macros see it):
            # normalise to the attribute form so both spellings compare equal
            body = text[3:].rstrip("\r")
            lit = '"' + body.replace("\\", "\\\\").replace('"', '\\"') + '"'
            toks.append(Tok("punct", "#", line))
            if text.startswith("//!"):
                toks.append(Tok("punct", "!", line))
            toks.append(Tok("punct", "[", line))
            toks.append(Tok("ident", "doc", line))
            toks.append(Tok("punct", "=", line))
            toks.append(Tok("str", lit, line))
            toks.append(Tok("punct", "]", line))
        elif kind not in ("ws", "lc", "bc"):
            if kind == "str":
                # proc-macro round trips escape `'` inside string literals (`\'`); same literal
                text = text.replace("\\'", "'")
            toks.append(Tok(kind, text, line))
        line += text.count("\n")
        pos = m.end()
    return toks


OPEN = {"(": ")", "[": "]", "{": "}"}
CLOSE = {")", "]", "}"}


class Group:
    __slots__ = ("open", "items", "line")

    def __init__(self, open_, items, line):
        self.open = open_
        self.items = items
        self.line = line

    def __repr__(self):
        return self.open + " ".join(repr(x) for x in self.items) + OPEN[self.open]


def parse_tts(toks):
    """Token list -> nested list of Tok / Group."""
    stack = [[]]
    opens = []
    for t in toks:
        if t.kind == "punct" and t.text in OPEN:
            stack.append([])
            opens.append(t)
        elif t.kind == "punct" and t.text in CLOSE:
            if not opens or OPEN[opens[-1].text] != t.text:
                raise CheckError("unbalanced delimiter `%s` at line %d" % (t.text, t.line))
            items = stack.pop()
            o = opens.pop()
            stack[-1].append(Group(o.text, items, o.line))
        else:
            stack[-1].append(t)
    if opens:
        raise CheckError("unclosed delimiter opened at line %d" % opens[-1].line)
    return stack[0]


def flat(tts):
    """Canonical flat string list of a token-tree list."""
    out = []
    for t in tts:
        if isinstance(t, Group):
            out.append(t.open)
            out.extend(flat(t.items))
            out.append(OPEN[t.open])
        else:
            out.append(t.text)
    return out


def text_of(tts):
    return " ".join(flat(tts))


def split_items(tts):
    """Split the token trees of a module / impl / trait body into items. An item ends at the first
    top-level `;` or brace group; directly following `;`s belong to it."""
    items = []
    cur = []
    i = 0
    n = len(tts)
    while i < n:
        t = tts[i]
        cur.append(t)
        end = False
        if isinstance(t, Group) and t.open == "{":
            # `#[...]`'s bracket group or a `(..)` never ends an item; a brace group does, except
            # the brace group of a `macro_rules! name { .. }` is also an item end (same thing)
            end = True
        elif isinstance(t, Tok) and t.text == ";":
            end = True
        if end:
            j = i + 1
            while j < n and isinstance(tts[j], Tok) and tts[j].text == ";":
                cur.append(tts[j])
                j += 1
            items.append(cur)
            cur = []
            i = j
            continue
        i += 1
    if cur:
        items.append(cur)
    return items


class Item:
    """One item: leading attributes (incl. doc comments), then the rest."""

    def __init__(self, tts):
        self.tts = tts
        self.attrs = []
        i = 0
        while i < len(tts):
            t = tts[i]
            if isinstance(t, Tok) and t.kind == "doc":
                self.attrs.append([t])
                i += 1
            elif isinstance(t, Tok) and t.text == "#" and i + 1 < len(tts) and isinstance(tts[i + 1], Group) and tts[i + 1].open == "[":
                self.attrs.append([t, tts[i + 1]])
                i += 2
            elif isinstance(t, Tok) and t.text == "#" and i + 2 < len(tts) and isinstance(tts[i + 1], Tok) and tts[i + 1].text == "!":
                self.attrs.append([t, tts[i + 1], tts[i + 2]])
                i += 3
            else:
                break
        self.rest = tts[i:]
        self.line = tts[0].line if tts else 0

    def words(self):
        return [t.text for t in self.rest if isinstance(t, Tok)]

    def kind_and_name(self):
        """('fn'|'mod'|'trait'|'impl'|'struct'|..., name or None) from the header tokens."""
        w = [t for t in self.rest if isinstance(t, Tok)]
        kinds = ("fn", "mod", "trait", "impl", "struct", "enum", "union", "const", "static", "type", "use", "macro_rules", "extern")
        for i, t in enumerate(w):
            if t.text in kinds:
                if t.text == "const" and i + 1 < len(w) and w[i + 1].text in ("fn", "unsafe", "async", "extern"):
                    continue
                if t.text == "extern" and i + 1 < len(w) and (w[i + 1].kind == "str" or w[i + 1].text == "fn"):
                    # `extern "C" fn` — keep scanning for fn; `extern "C" { }` has no fn token
                    if any(x.text == "fn" for x in w[i + 1:i + 3]):
                        continue
                    return ("extern", None)
                if t.text == "impl":
                    return ("impl", None)
                name = None
                for x in w[i + 1:]:
                    if x.kind == "ident" and x.text != "!":
                        name = x.text
                        break
                return (t.text, name)
        return (None, None)

    def attr_texts(self):
        return [text_of(a) for a in self.attrs]

    def body_group(self):
        for t in reversed(self.rest):
            if isinstance(t, Group) and t.open == "{":
                return t
        return None

    def header(self):
        """Tokens of the item without attributes and without the final brace group / `;`."""
        r = list(self.rest)
        while r and isinstance(r[-1], Tok) and r[-1].text == ";":
            r.pop()
        if r and isinstance(r[-1], Group) and r[-1].open == "{":
            r.pop()
        return r

    def text(self):
        return text_of(self.tts)

    def text_noattr(self):
        return text_of(self.rest)


def items_of(tts):
    return [Item(x) for x in split_items(tts)]


def find_module(items, path):
    """Descend `mod a { mod b { .. } }` by names; returns the Item list of the innermost module."""
    cur = items
    for name in path:
        nxt = None
        for it in cur:
            k, n = it.kind_and_name()
            if k == "mod" and n == name and it.body_group() is not None:
                nxt = items_of(it.body_group().items)
                break
        if nxt is None:
            return None
        cur = nxt
    return cur


ENTRAIT_ATTR_RE = re.compile(r"^[ \t]*#\[\s*(?:::)?(?:entrait::)?entrait(?:_export)?\b", re.M)


def strip_entrait_attrs(src):
    """Remove every `#[entrait…]` attribute (which the witness sources keep on lines of their own)
    and return (stripped source, list of removed attribute texts in order)."""
    out = []
    removed = []
    i = 0
    while True:
        m = ENTRAIT_ATTR_RE.search(src, i)
        if not m:
            out.append(src[i:])
            break
        out.append(src[i:m.start()])
        j = src.index("[", m.start())
        depth = 0
        k = j
        while True:
            ch = src[k]
            if ch == "[":
                depth += 1
            elif ch == "]":
                depth -= 1
                if depth == 0:
                    break
            k += 1
        removed.append(src[src.index("#", m.start()):k + 1])
        # keep line structure
        out.append(" " * (m.end() - m.start()) if False else "")
        i = k + 1
    return "".join(out), removed


def make_twin(crate_dir, name):
    """Copy a witness crate to .cache/gen/<name> with every entrait attribute removed."""
    dst = os.path.join(CACHE, "gen", name)
    shutil.rmtree(dst, ignore_errors=True)
    os.makedirs(os.path.join(dst, "src"))
    for f in os.listdir(crate_dir):
        p = os.path.join(crate_dir, f)
        if os.path.isfile(p):
            text = open(p).read()
            if f == "Cargo.toml":
                text = text.replace('path = "../', 'path = "%s/' % os.path.dirname(crate_dir))
            open(os.path.join(dst, f), "w").write(text)
    removed = {}
    for f in sorted(os.listdir(os.path.join(crate_dir, "src"))):
        if not f.endswith(".rs"):
            continue
        src = open(os.path.join(crate_dir, "src", f)).read()
        stripped, rem = strip_entrait_attrs(src)
        removed[f] = rem
        open(os.path.join(dst, "src", f), "w").write(stripped)
    return dst, removed
