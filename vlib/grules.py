"""Generator-tier rules over edrv `gen` facts of entrait_macros (type-checked MIR of the macro crate)."""
import os
import re

from .common import REPO, VERIF, CheckError
from .facts import run_driver

GCTL = os.path.join(VERIF, "witness", "gctl")


def load_gen():
    facts, diags, wall = run_driver(os.path.join(REPO, "entrait_macros"), "entrait_macros", mode="gen")
    if facts is None:
        errs = [d for d in diags if d["level"] == "error"]
        raise CheckError("entrait_macros does not compile: %s" % (errs[0]["rendered"] if errs else "?"))
    return facts, wall


def load_controls():
    facts, diags, wall = run_driver(GCTL, "gctl", mode="gen")
    if facts is None:
        raise CheckError("the positive-control crate does not compile")
    return facts


def where(b, c=None):
    sp = (c or b)["span"]
    return "%s:%d" % (sp["file"], sp["lo_line"])


def fn_of(path):
    """Owning named function of a body path (closures are attributed to their parent)."""
    return re.sub(r"(::\{closure#\d+\})+$", "", path)


def callee_names(c):
    out = []
    if c.get("def"):
        out.append(c["def"])
    r = c.get("resolved")
    if isinstance(r, dict) and r.get("def"):
        out.append(r["def"])
    return out


DENY_PREFIX = (
    "std::env::", "std::time::", "std::fs::", "std::net::", "std::process::", "std::thread::",
    "std::sync::", "core::sync::atomic", "std::os::", "std::path::", "proc_macro::tracked",
    "std::hash::random", "std::collections::hash::map::RandomState::", "std::io::",
    "core::cell::once", "std::sys::", "core::ptr::", "core::intrinsics::", "core::hint::black_box",
    "std::thread_local", "std::alloc::", "core::time::", "std::random",
)
PRINT = "std::io::stdio::_print"
# source positions are not part of (attribute, item): tokens must not depend on them
POSITION = re.compile(r"^proc_macro2?::(extra::)?Span::(start|end|source_text|source_file|byte_range|local_file|file|line|column|unwrap)$|"
                      r"^proc_macro2?::(LineColumn|SourceFile)::|^<proc_macro2?::Span as core::fmt::Debug>::fmt")

HASH_OK = {"new", "with_capacity", "insert", "contains", "get", "contains_key", "len", "is_empty", "default",
           "with_hasher", "reserve"}


def effect_findings(facts):
    """(rule, key, message, where) for every impure construct in any body of the crate."""
    out = []
    for b in facts["bodies"]:
        if b.get("stolen"):
            continue
        owner = fn_of(b["path"])
        for s in b["statics"]:
            out.append(("G-EFFECT", "%s static %s" % (owner, s["def"]), "body reads or writes static `%s`" % s["def"], where(b, s)))
        for s in b["tls"]:
            out.append(("G-EFFECT", "%s thread-local %s" % (owner, s["def"]), "body accesses thread-local `%s`" % s["def"], where(b, s)))
        for c in b["casts"]:
            if "Expose" in c["kind"]:
                out.append(("G-EFFECT", "%s ptr-to-int" % owner, "pointer-to-integer cast (address-dependent value)", where(b, c)))
        for c in b["calls"]:
            names = callee_names(c)
            for n in names:
                if n == PRINT:
                    continue
                if any(n.startswith(p) or ("<" + p) in n for p in DENY_PREFIX):
                    out.append(("G-EFFECT", "%s calls %s" % (owner, strip_generics(n)),
                                "call of `%s` (environment / time / global state / IO)" % n, where(b, c)))
                    break
            # `{:?}` of a token / syntax-tree value prints its span (byte offsets of the invocation)
            if any(re.search(r"core::fmt::rt::Argument::<[^>]*>::new_debug", n) for n in names):
                tys = " ".join(c.get("gargs_s", []) + c["arg_tys"])
                m = re.search(r"\b(proc_macro2?|syn)::[\w:]+", tys)
                if m:
                    out.append(("G-EFFECT", "%s position debug-format %s" % (owner, m.group(0)),
                                "`%s` formats a `%s` with `{:?}`: the Debug output of token / syntax-tree values contains their span, so the expansion "
                                "would depend on where the invocation is written" % (owner, m.group(0)), where(b, c)))
            for n in names:
                if POSITION.search(strip_generics(n)):
                    out.append(("G-EFFECT", "%s position %s" % (owner, strip_generics(n)),
                                "`%s` reads a source position (`%s`): the expansion would depend on where the invocation is written" % (owner, n), where(b, c)))
                    break
            # hash-order rule
            tys = " ".join(c.get("gargs_s", []) + c["arg_tys"])
            if re.search(r"\bHash(Set|Map)\b", tys) or any(re.search(r"collections::hash::(set|map)::", n) for n in names):
                if any(n.startswith("crate::") for n in names):
                    continue
                d = c.get("def") or ""
                last = strip_generics(d).split("::")[-1]
                self_ty = (c.get("gargs_s") or [""])[0]
                is_hash_method = re.search(r"collections::hash::(set|map)::Hash(Set|Map)", d) is not None
                if is_hash_method and last in HASH_OK:
                    continue
                if d in ("core::iter::traits::iterator::Iterator::collect", "core::iter::traits::collect::FromIterator::from_iter") \
                        and not re.search(r"\bHash(Set|Map)\b", " ".join(c["arg_tys"])) \
                        and not re.search(r"\bHash(Set|Map)\b", self_ty):
                    continue  # building a hash collection from an ordered iterator
                if d in ("core::ops::deref::Deref::deref", "core::ops::deref::DerefMut::deref_mut", "core::mem::drop",
                         "core::ptr::drop_in_place"):
                    continue
                out.append(("G-HASH", "%s %s on hash collection" % (owner, strip_generics(d)),
                            "`%s` is applied to a HashSet/HashMap: only membership operations are allowed, iteration order must not reach the output"
                            % d, where(b, c)))
    return out


QUOTE_LIKE = {"quote", "quote_spanned", "parse_quote", "parse_quote_spanned", "push_tokens", "format_ident", "macro_rules"}
BUILD_MACROS = {"cfg", "env", "option_env", "line", "column", "file", "module_path", "include", "include_str", "include_bytes"}


def buildcfg_findings(src_dir, rel_to):
    """G-CFG (syntax tree of the generator's own source): the generator does not consult its OWN build configuration or
    source position — no `cfg!(..)`, no `#[cfg(..)]` / `#[cfg_attr(..)]` other than `cfg(test)`, no `env!` / `option_env!`
    / `line!` / `column!` / `file!` / `module_path!` / `include*!`. Token trees inside `quote!`-like macros are what the
    generator EMITS and are skipped. Returns (findings, files scanned, tokens scanned)."""
    from .expq import tokenize, parse_tts, Group, Tok
    from .common import walk_files
    out = []
    nfiles = 0
    ntok = [0]

    def walk(tts, fname):
        i = 0
        while i < len(tts):
            t = tts[i]
            if isinstance(t, Group):
                walk(t.items, fname)
                i += 1
                continue
            ntok[0] += 1
            nxt = tts[i + 1] if i + 1 < len(tts) else None
            nxt2 = tts[i + 2] if i + 2 < len(tts) else None
            is_bang = isinstance(nxt, Tok) and nxt.text == "!"
            if t.kind == "ident" and is_bang and t.text in QUOTE_LIKE:
                # skip the macro's argument group (and, for `quote_spanned! { span => .. }`, everything in it)
                j = i + 2
                while j < len(tts) and not isinstance(tts[j], Group):
                    j += 1
                i = j + 1
                continue
            if t.kind == "ident" and is_bang and t.text in BUILD_MACROS and isinstance(nxt2, Group):
                out.append(("G-CFG", "%s %s!" % (fname, t.text),
                            "`%s!(..)` in the generator: the expansion would depend on how / where the macro crate itself was built" % t.text,
                            "%s:%d" % (fname, t.line)))
            if t.text == "#" and isinstance(nxt, Group) and nxt.open == "[" and nxt.items:
                head = nxt.items[0]
                if isinstance(head, Tok) and head.text in ("cfg", "cfg_attr") and len(nxt.items) > 1 and isinstance(nxt.items[1], Group):
                    inner = " ".join(x.text for x in nxt.items[1].items if isinstance(x, Tok))
                    if not (head.text == "cfg" and inner.strip() == "test"):
                        out.append(("G-CFG", "%s #[%s(%s)]" % (fname, head.text, inner[:40]),
                                    "conditional compilation `#[%s(%s)]` in the generator: different builds of the macro crate would "
                                    "generate different code" % (head.text, inner[:60]), "%s:%d" % (fname, t.line)))
            i += 1

    for p in sorted(walk_files(src_dir)):
        if not p.endswith(".rs"):
            continue
        nfiles += 1
        fname = os.path.relpath(p, rel_to)
        walk(parse_tts(tokenize(open(p).read())), fname)
    return out, nfiles, ntok[0]


def optval_findings(facts):
    """G-OPTVAL: a boolean option of the attribute (`Option<SpanOpt<bool>>`, `Option<SpanOpt<FutureSend>>`) is read
    through its VALUE (with the default when absent). A presence predicate on it — `is_some()` / `is_none()` — makes
    `opt = false` differ from leaving `opt` out."""
    out = []
    n = 0
    for b in facts["bodies"]:
        if b.get("stolen"):
            continue
        owner = fn_of(b["path"])
        for c in b["calls"]:
            names = callee_names(c)
            a0 = (c["arg_tys"] or [""])[0]
            if not re.search(r"core::option::Option<(crate::)?opt::SpanOpt<(bool|(crate::)?opt::FutureSend)>>", a0):
                continue
            n += 1
            if any(re.search(r"core::option::Option::<[^>]*>::(is_some|is_none|is_some_and|is_none_or)$", x) for x in names):
                out.append(("G-OPTVAL", "%s %s" % (owner, strip_generics(names[0]).split("::")[-1]),
                            "`%s` tests the PRESENCE of a boolean option (`%s` on `%s`): `opt = false` would no longer be the same as "
                            "omitting `opt`" % (owner, strip_generics(names[0]).split("::")[-1], a0), where(b, c)))
    return out, n


def strip_generics(n):
    # drop generic argument lists `::<..>` and `<..>` after path segments
    depth = 0
    out = ""
    i = 0
    while i < len(n):
        ch = n[i]
        if ch == "<" and (i == 0 or n[i - 1] != "-"):
            if i == 0:
                # leading `<T as Trait>` — keep
                j = n.find(">::", i)
                if j < 0:
                    return n
                out += n[i:j + 1]
                i = j + 1
                continue
            depth += 1
        elif ch == ">" and depth > 0 and n[i - 1] != "-":
            depth -= 1
            i += 1
            continue
        if depth == 0:
            out += ch
        i += 1
    return out.replace("::::", "::").rstrip(":")


def entry_points(facts):
    return [b for b in facts["bodies"] if any("ProcMacro" in a for a in b.get("attrs", []))]


def print_sites(facts):
    out = []
    for b in facts["bodies"]:
        for c in b.get("calls", []):
            if PRINT in callee_names(c):
                out.append((b, c))
    return out
