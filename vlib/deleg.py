"""R-DELEG: a generated method body is exactly one call of the right definition with the method's
own parameters, in order, and its value is the method's value (awaited once for async)."""

INTO_FUTURE = "core::future::into_future::IntoFuture::into_future"
ASREF = "core::convert::AsRef::as_ref"
BORROW = "core::borrow::Borrow::borrow"
REBORROW_OK = {"Deref(Builtin)", "Borrow(Ref)", "Borrow(Mut)"}


def real_adjusts(e):
    """Adjustments that change something: rustc records identity `Pointer(Unsize)` coercions
    (e.g. Box<dyn F> to the same Box<dyn F>) which are dropped here."""
    out = []
    cur = e.get("ty")
    for a in e.get("adj", []):
        if a["kind"] == "Pointer(Unsize)" and a["target"] == cur:
            continue
        out.append(a)
        cur = a["target"]
    return out


def strip(e):
    while True:
        k = e["k"]
        if k in ("droptemps", "use"):
            e = e["e"]
        elif k == "block" and not e["stmts"] and e["expr"] is not None and e["rules"] == "DefaultBlock":
            e = e["expr"]
        else:
            return e


def walk(e, f):
    """Visit every expression node (pre-order)."""
    if isinstance(e, dict):
        if "k" in e:
            f(e)
        for v in e.values():
            walk(v, f)
    elif isinstance(e, list):
        for v in e:
            walk(v, f)


def all_calls(e):
    out = []
    walk(e, lambda n: out.append(n) if n.get("k") in ("call", "mcall") else None)
    return out


class Body:
    """Normal form of a generated method body."""

    def __init__(self, fn):
        self.fn = fn
        self.problems = []
        self.awaited = False
        self.delegate = None
        self.param_names = []
        self.env = {}  # hir_id -> param index
        self.is_async_closure = False
        self._analyze()

    def problem(self, s):
        self.problems.append(s)

    def _analyze(self):
        fn = self.fn
        if not fn.get("has_body"):
            self.problem("no body")
            return
        for i, p in enumerate(fn["params"]):
            if p["p"] != "binding" or p.get("sub") is not None:
                self.problem("parameter %d of the generated method is not a plain identifier pattern (%s)" % (i, p["p"]))
                self.param_names.append(None)
                continue
            self.param_names.append(p["name"])
            self.env[p["hir_id"]] = i
        e = fn["body"]
        root = e
        if e["k"] == "closure" and "Coroutine(Desugared(Async, Fn))" in e["closure_kind"]:
            self.is_async_closure = True
            inner = e["body"]
            if inner["k"] != "block":
                self.problem("async body is not a block")
                return
            for st in inner["stmts"]:
                ok = False
                if st["s"] == "let" and st["pat"]["p"] == "binding" and st["init"] is not None:
                    init = strip(st["init"])
                    if init["k"] == "local" and init["hir_id"] in self.env and not init.get("adj"):
                        self.env[st["pat"]["hir_id"]] = self.env[init["hir_id"]]
                        ok = True
                if not ok:
                    self.problem("async prologue contains a statement that is not `let p = <param>`")
            if inner["expr"] is None:
                self.problem("async body has no tail expression")
                return
            e = inner["expr"]
        e = strip(e)
        if e["k"] == "block":
            self.problem("body block contains %d statement(s) besides the tail" % len(e["stmts"]))
            if e["expr"] is None:
                return
            e = strip(e["expr"])
        if e["k"] == "match" and e["src"] == "AwaitDesugar":
            scrut = strip(e["scrut"])
            if scrut["k"] == "call" and scrut["callee"] and scrut["callee"]["def"] == INTO_FUTURE and len(scrut["args"]) == 1:
                self.awaited = True
                e = strip(scrut["args"][0])
            else:
                self.problem("await of something that is not IntoFuture::into_future(<call>)")
                return
        if e["k"] not in ("call", "mcall"):
            self.problem("the method's value is not a call expression (found `%s`)" % e["k"])
            return
        self.delegate = e
        # every call in the body must be accounted for
        total = all_calls(root)
        accounted = [id(e)]
        if self.awaited:
            accounted.append("into_future")
        self.hops = []
        if e["k"] == "mcall":
            r = e["recv"]
            self.recv = self._hops(r)
        self.n_calls = len(total)
        expected = 1 + (1 if self.awaited else 0) + len(self.hops)
        if e["k"] == "call":
            # adapter hops may also sit in argument 0 (dynamic inversion is an mcall; static is a call)
            pass
        if self.n_calls != expected:
            names = [(c.get("callee") or {}).get("def") or c.get("name") for c in total]
            self.problem("body contains %d calls, expected %d (delegate%s + %d adapter hops): %s"
                         % (self.n_calls, expected, " + await" if self.awaited else "", len(self.hops), names))
        # no other awaits / closures / control flow
        kinds = []
        walk(root, lambda n: kinds.append(n["k"]))
        n_await = 0

        def cnt(n):
            nonlocal n_await
            if n["k"] == "match" and n.get("src") == "AwaitDesugar":
                n_await += 1
        walk(root, cnt)
        if n_await != (1 if self.awaited else 0):
            self.problem("body contains %d await(s)" % n_await)
        for bad in ("if", "loop", "assign", "ret", "break", "struct", "binary", "yield"):
            if bad in kinds:
                self.problem("body contains a `%s` expression" % bad)
        if kinds.count("closure") != (1 if self.is_async_closure else 0):
            self.problem("body contains an unexpected closure")
        nm = sum(1 for k in kinds if k == "match")
        if nm != (1 if self.awaited else 0):
            self.problem("body contains an unexpected match")

    def _hops(self, r):
        """Peel adapter hops off a receiver expression; returns the innermost expression."""
        while True:
            r0 = r
            r = strip(r)
            if r["k"] == "mcall" and r["callee"] and r["callee"]["def"] in (ASREF, BORROW) and not r["args"]:
                self.hops.append(r)
                r = r["recv"]
                continue
            if r["k"] == "call" and r["callee"] and r["callee"]["def"] in (ASREF, BORROW) and len(r["args"]) == 1:
                self.hops.append(r)
                r = r["args"][0]
                continue
            return r

    def arg_param(self, e, impl_deref=False):
        """If `e` is (a reborrow of) one of the method's parameters return its index, else None.
        With impl_deref, an auto-deref through `Impl<T>: Deref<Target = T>` is accepted as well
        (the adapter hop from `&Impl<T>` to `&T` in receiver position)."""
        e = strip(e)
        for a in real_adjusts(e):
            if a["kind"] in REBORROW_OK:
                continue
            if impl_deref and a["kind"] == "Deref(Overloaded)" and a["target"] == "EntraitT":
                continue
            return None
        # explicit `&*p`
        if e["k"] == "addrof":
            inner = strip(e["e"])
            if inner["k"] == "unary" and inner["op"] == "Deref":
                return self.arg_param(inner["e"], impl_deref)
            return None
        if e["k"] == "local":
            return self.env.get(e["hir_id"])
        return None

    def delegate_args(self):
        d = self.delegate
        return [self.arg_param(a) for a in d["args"]]


def callee_of(d):
    return d.get("callee") or {}


def describe(body):
    d = body.delegate
    if d is None:
        return {"problems": body.problems}
    c = callee_of(d)
    return {
        "form": d["k"],
        "callee": c.get("def"),
        "resolved": (c.get("resolved") or {}).get("def") if isinstance(c.get("resolved"), dict) else c.get("resolved"),
        "resolved_kind": (c.get("resolved") or {}).get("kind") if isinstance(c.get("resolved"), dict) else None,
        "args": body.delegate_args(),
        "awaited": body.awaited,
        "hops": [callee_of(h).get("def") for h in body.hops],
    }
