"""C16 — generated parameter names are usable for every parameter pattern list (small scope, exhaustive)."""
import itertools
import os
import re

from ..common import CACHE, REPO, Report, CheckError
from ..facts import build_with_skips
from ..model import Crate
from ..wrules import FnModView, check_fnmod_delegation, trait_methods, impl_methods, in_macro, last_seg

RAW = ["r#type", "r#match", "r#loop"]
SYMS = ["ident", "mut", "ref", "raw", "wild", "tuple", "newtype", "newtype2", "struct", "refpat", "fnname", "argname", "fnname_in_newtype",
        # a single inner binding that carries a binding mode / the top-level `@` form
        "newtype_mut", "struct_ref", "tuple_mut_wild", "newtype_ref_mut", "ident_at",
        # `S { field: binding }` with a binding named differently from the field, and a plain parameter named like a
        # neighbour's FIELD (the lifted name is the binding's, never the field's)
        "struct_rename", "fieldname"]


def param(sym, i, n, fname):
    """(pattern text, type text, expected kind, binding name or None)"""
    if sym == "ident":
        return ("a%d" % i, "u8", "keep", "a%d" % i)
    if sym == "mut":
        return ("mut a%d" % i, "u8", "keep", "a%d" % i)
    if sym == "ref":
        return ("ref a%d" % i, "u8", "keep", "a%d" % i)
    if sym == "raw":
        return (RAW[i], "u8", "keep", RAW[i][2:])
    if sym == "wild":
        return ("_", "u8", "fresh", None)
    if sym == "tuple":
        return ("(a%d, b%d)" % (i, i), "(u8, u8)", "fresh", None)
    if sym == "newtype":
        return ("N(a%d)" % i, "N", "keep", "a%d" % i)
    if sym == "newtype2":
        return ("N2(a%d, _)" % i, "N2", "keep", "a%d" % i)
    if sym == "struct":
        return ("S%d { x%d }" % (i, i), "S%d" % i, "keep", "x%d" % i)
    if sym == "refpat":
        return ("&a%d" % i, "&u8", "keep", "a%d" % i)
    if sym == "newtype_mut":
        return ("N(mut a%d)" % i, "N", "keep", "a%d" % i)
    if sym == "struct_ref":
        return ("S%d { ref x%d }" % (i, i), "S%d" % i, "keep", "x%d" % i)
    if sym == "tuple_mut_wild":
        return ("(mut a%d, _)" % i, "(u8, u8)", "keep", "a%d" % i)
    if sym == "newtype_ref_mut":
        return ("N(ref mut a%d)" % i, "N", "keep", "a%d" % i)
    if sym == "ident_at":
        return ("a%d @ N(_)" % i, "N", "keep", "a%d" % i)
    if sym == "struct_rename":
        return ("S%d { x%d: y%d }" % (i, i, i), "S%d" % i, "keep", "y%d" % i)
    if sym == "fieldname":
        j = (i + 1) % n
        return ("x%d" % j, "u8", "keep", "x%d" % j)
    if sym == "fnname":
        return (fname, "u8", "fresh", None)
    if sym == "argname":
        j = (i + 1) % n
        return ("arg%d" % j, "u8", "keep", "arg%d" % j)
    if sym == "fnname_in_newtype":
        return ("N(%s)" % fname, "N", "fresh", None)
    raise ValueError(sym)


def enumerate_lists(maxlen):
    for n in range(1, maxlen + 1):
        for combo in itertools.product(SYMS, repeat=n):
            # a binding may occur once per function: `fnname`-derived and `argname` collide only with themselves
            if sum(1 for s in combo if s in ("fnname", "fnname_in_newtype")) > 1:
                continue
            names = []
            ok = True
            for i, s in enumerate(combo):
                _, _, _, b = param(s, i, n, "f")
                if s == "argname" and n == 1:
                    pass
                if b is not None:
                    if b in names:
                        ok = False
                    names.append(b)
            if ok:
                yield combo


HEADER = """#![allow(dead_code, unused_variables, unused_mut, non_snake_case)]
pub struct N(pub u8);
pub struct N2(pub u8, pub u8);
pub struct S0 { pub x0: u8 }
pub struct S1 { pub x1: u8 }
pub struct S2 { pub x2: u8 }
"""


def generate(dirname, maxlen, mode):
    os.makedirs(os.path.join(dirname, "src"), exist_ok=True)
    with open(os.path.join(dirname, "Cargo.toml"), "w") as f:
        f.write('[package]\nname = "wit_c16"\nversion = "0.0.0"\nedition = "2021"\n\n[dependencies]\nentrait = { path = "%s" }\n\n[workspace]\n' % REPO)
    import shutil
    shutil.copy(os.path.join(REPO, "Cargo.lock"), os.path.join(dirname, "Cargo.lock"))
    cases = []
    lines = [HEADER]
    base = HEADER.count("\n") + 1
    variants = []
    for combo in enumerate_lists(maxlen):
        variants.append((combo, None))
        # the function itself may be named like a would-be generated name (arg0, arg1, _arg0)
        if len(combo) <= 2 and any(sy in ("wild", "tuple", "fnname", "fnname_in_newtype", "argname") for sy in combo):
            for special in ("arg0", "arg1", "_arg0"):
                variants.append((combo, special))
    for idx, (combo, special) in enumerate(variants):
        fname = special or ("f%d" % idx)
        ps = [param(s, i, len(combo), fname) for i, s in enumerate(combo)]
        # a binding that coincides with the function's name must be renamed, whatever symbol produced it
        ps = [(pt, ty, "fresh" if b == fname else k, None if b == fname else b) for (pt, ty, k, b) in ps]
        # a plain binding equal to the special function name would bind twice together with `fnname`: skip
        binds = [re.sub(r"^(mut |ref )", "", p[0]) for p in ps if re.match(r"^(mut |ref )?[a-z_][a-z0-9_#]*$", p[0]) and p[0] != "_"]
        binds += [fname for sy in combo if sy == "fnname_in_newtype"]
        if len(set(binds)) != len(binds):
            lines.append("// (skipped: duplicate binding)")
            continue
        args = ", ".join("%s: %s" % (p[0], p[1]) for p in ps)
        if mode == "fn":
            body = "#[cfg(not(skip_m%d))] pub mod m%d { use super::*; #[entrait::entrait(T)] fn %s<D>(deps: &D, %s) -> u8 { 0 } }" % (idx, idx, fname, args)
        elif mode == "nodeps":
            body = "#[cfg(not(skip_m%d))] pub mod m%d { use super::*; #[entrait::entrait(T, no_deps)] fn %s(%s) -> u8 { 0 } }" % (idx, idx, fname, args)
        else:
            body = "#[cfg(not(skip_m%d))] pub mod m%d { use super::*; #[entrait::entrait(pub T)] pub mod inner { use super::*; pub fn %s<D>(deps: &D, %s) -> u8 { 0 } } }" % (idx, idx, fname, args)
        lines.append(body)
        cases.append({"idx": idx, "fname": fname, "combo": combo + (("fn=" + special,) if special else ()), "params": ps, "line": 0})
    text = "\n".join(lines) + "\n"
    with open(os.path.join(dirname, "src", "lib.rs"), "w") as f:
        f.write(text)
    # line numbers by reading the file back (fail closed if a case cannot be located)
    where = {}
    for ln, line in enumerate(text.split("\n"), 1):
        m = re.match(r"#\[cfg\(not\(skip_m(\d+)\)\)\]", line)
        if m:
            where[int(m.group(1))] = ln
    for c in cases:
        c["line"] = where[c["idx"]]
    return cases


def write_chunk(cdir, srcdir, part):
    """A crate holding only the given cases (lines re-numbered)."""
    os.makedirs(os.path.join(cdir, "src"), exist_ok=True)
    import shutil
    shutil.copy(os.path.join(srcdir, "Cargo.toml"), os.path.join(cdir, "Cargo.toml"))
    shutil.copy(os.path.join(srcdir, "Cargo.lock"), os.path.join(cdir, "Cargo.lock"))
    lines = open(os.path.join(srcdir, "src", "lib.rs")).read().split("\n")
    out = [HEADER.rstrip("\n")]
    base = len(HEADER.rstrip("\n").split("\n"))
    for k, c in enumerate(part):
        out.append(lines[c["line"] - 1])
        c["line"] = base + 1 + k
    with open(os.path.join(cdir, "src", "lib.rs"), "w") as f:
        f.write("\n".join(out) + "\n")


def run(tier):
    rep = Report("C16", tier, "exploration")
    maxlen = 2 if tier == "quick" else 3
    modes = ["fn", "nodeps"] if tier == "quick" else ["fn", "nodeps", "mod"]
    total = 0
    nontrivial = set()
    for mode in modes:
        dirname = os.path.join(CACHE, "gen", "c16_%s_%d" % (mode, maxlen))
        all_cases = generate(dirname, maxlen, mode)
        # compile in chunks (one huge crate exhausts the driver's memory): each chunk is its own crate
        CHUNK = 700
        cases = []
        failures = {}
        by_mod = {}
        crates = {}
        for ci in range(0, len(all_cases), CHUNK):
            part = all_cases[ci:ci + CHUNK]
            cdir = os.path.join(CACHE, "gen", "c16_%s_%d_chunk%d" % (mode, maxlen, ci // CHUNK))
            write_chunk(cdir, dirname, part)
            by_line = {c["line"]: c for c in part}

            def attribute(span, by_line=by_line):
                c = by_line.get(span["line"])
                return "m%d" % c["idx"] if c else None
            facts, fl, wall = build_with_skips(cdir, "wit_c16", attribute=attribute, max_rounds=5)
            failures.update(fl)
            crate = Crate(facts, cdir)
            for exp in crate.expansions:
                m = re.search(r"::m(\d+)", exp.module or "")
                if m:
                    by_mod[int(m.group(1))] = exp
                    crates[int(m.group(1))] = crate
            cases += part
        for c in cases:
            total += 1
            combo = c["combo"]
            desc = "[%s]" % ", ".join(combo)
            symset = "+".join(sorted(set(combo)))
            fail = failures.get("m%d" % c["idx"])
            if fail:
                d = fail[0]
                rep.add("W-PATTERNS", "%s patterns {%s} compile" % (mode, symset),
                        "pattern list %s (`%s`) does not expand to compiling code: %s %s; e.g. fn %s"
                        % (desc, ", ".join(p[0] for p in c["params"]), d.get("code") or "", d["message"][:160], c["fname"]))
                continue
            exp = by_mod.get(c["idx"])
            if exp is None:
                raise CheckError("no expansion found for generated case m%d" % c["idx"])
            crate = crates[c["idx"]]
            v = FnModView(crate, exp)
            if v.trait is None:
                rep.add("W-PATTERNS", "%s patterns {%s} trait" % (mode, symset), "no trait generated for %s" % desc)
                continue
            tm = trait_methods(crate, v.trait)[0]
            names = [n for n in tm["arg_idents"][1:]]
            names = [n[2:] if n and n.startswith("r#") else n for n in names]
            key = "%s patterns {%s}" % (mode, symset)
            if len(combo) > 1 or combo[0] not in ("ident",):
                nontrivial.add((mode, combo))
            if len(rep.samples) < 10 and len(combo) == maxlen and c["idx"] % 37 == 0:
                rep.sample({"mode": mode, "patterns": [p[0] for p in c["params"]], "generated_names": names})
            if any(n is None for n in names):
                rep.add("W-PATTERNS", key + " plain", "a generated parameter is not a plain identifier for %s: %s" % (desc, names))
                continue
            if len(set(names)) != len(names):
                rep.add("W-PATTERNS", key + " distinct", "generated parameter names are not pairwise distinct for %s (`%s`): %s"
                        % (desc, ", ".join(p[0] for p in c["params"]), names))
            if c["fname"] in names:
                rep.add("W-PATTERNS", key + " shadow", "a generated parameter shadows the function `%s` for %s: %s" % (c["fname"], desc, names))
            for (pat, ty, kind, bind), got, sym in zip(c["params"], names, [x for x in combo if not x.startswith("fn=")]):
                if kind == "keep" and got != bind:
                    rep.add("W-PATTERNS", "%s symbol %s naming" % (mode, sym),
                            "parameter `%s` should keep the name `%s` but is called `%s` (list %s)" % (pat, bind, got, desc))
            # positional forwarding
            before = len(rep.findings)
            check_fnmod_delegation(rep, crate, exp, "plain", rule="R-DELEG")
            # re-key delegation findings by symbol set (line/ident free)
            for f in rep.findings[before:]:
                f.key = "%s %s" % (key, f.key.split(" :: ")[-1].split(" ", 1)[-1] if " :: " in f.key else f.key)
        rep.count("lists_%s" % mode, len(cases))
    rep.coverage.update({
        "evaluations": total,
        "distinct_nontrivial": len(nontrivial),
        "rule": "every list of length 1..%d over the 13-symbol pattern alphabet {ident, mut ident, ref ident, r#ident, _, (a,b), N(a), N2(a,_), S{x}, &a, ident = fn name, ident = would-be generated name argK, N(fn name)} with distinct bindings per position (lists that would bind a name twice or use the fn name twice are not valid Rust and are left out), as a single fn%s; non-trivial = anything but the single plain identifier; distinct = distinct symbol list x mode"
                % (maxlen, " and inside an entraited module" if len(modes) > 1 else ""),
        "exhaustive": True,
        "explanation": "per list: the expansion compiles (type-check + borrow-check), the generated trait method's parameter names (tcx.fn_arg_idents) are plain identifiers, pairwise distinct, none equal to the function's name, plain/single-binding patterns keep their binding's name, and R-DELEG shows the operands forwarded positionally",
    })
    rep.assumptions.append("lists longer than the bound are not covered; the renaming algorithm is not proven in general")
    return rep.finish()
