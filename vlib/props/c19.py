"""C19 — generated code is self-contained: no imports, no std, no name capture."""
import os
import re

from ..common import REPO, Report
from ..corpus import load
from ..grules import fn_of, load_gen, strip_generics, where
from ..wrules import (check_fnmod_delegation, check_fnmod_predicates, check_implblock, check_inversion_traits,
                      check_trait_forwarding, check_trait_predicates, trait_methods, FnModView, TraitView)
from .c12 import future_info, check_pair

KEYWORDS = {"impl", "for", "trait", "type", "pub", "use", "as", "dyn", "self", "Self", "where", "fn", "async", "mod", "super", "crate", "move", "await"}
RESERVED = {"EntraitT", "__impl", "T", "Target"}                      # the macro's own generic parameter / receiver identifiers
# the macro's own generic *lifetime* parameter (names the elided `&self` lifetime on a static delegation-target method)
RESERVED_LIFETIMES = {"'static", "'entrait_self"}
CRATES = {"entrait", "core", "__unimock", "unimock", "mockall", "__async_trait", "async_trait", "automock"}
ATTR_KEYS = {"cfg_attr", "test", "prefix", "api", "unmock_with", "Output"}
METHODS = {"as_ref", "borrow"}
# identifiers that are only meaningful below an absolute root, with the module literal that must accompany them
NEEDS_PARENT = {"Send": "marker", "Sync": "marker", "Future": "future", "AsRef": "convert", "Borrow": "borrow",
                "marker": None, "future": None, "convert": None, "Impl": None}  # module segments: the crate root is a hole (CrateIdents)


def literal_inventory(facts):
    """{owner fn: [(literal, callee kind, where)]} for every identifier literal the generator can emit."""
    inv = {}
    seps = {}
    for b in facts["bodies"]:
        if b.get("stolen"):
            continue
        owner = fn_of(b["path"])
        for c in b["calls"]:
            d = strip_generics(c.get("def") or "")
            last = d.split("::")[-1]
            if last in ("push_ident", "push_ident_spanned") or d.endswith("Ident::new") or d.endswith("Lifetime::new") or last == "push_lifetime":
                lits = [x for x in c.get("const_args", []) if x and x.startswith('"')]
                for lit in lits:
                    inv.setdefault(owner, []).append((lit.strip('"'), last, where(b, c)))
            if last in ("push_colon2", "push_colon2_spanned") or d.endswith("token::PathSep") or "PathSep" in " ".join(c.get("gargs_s", [])):
                seps[owner] = seps.get(owner, 0) + 1
    return inv, seps


def run(tier):
    rep = Report("C19", tier, "translation_validation")
    # ---- G: every identifier literal the generator can emit is classified
    facts, _ = load_gen()
    inv, seps = literal_inventory(facts)
    callgraph = {}
    for b in facts["bodies"]:
        if b.get("stolen"):
            continue
        owner = fn_of(b["path"])
        for c in b["calls"]:
            for n in (c.get("def"), (c.get("resolved") or {}).get("def") if isinstance(c.get("resolved"), dict) else None):
                if n and n.startswith(("crate::", "<crate::")):
                    callgraph.setdefault(owner, set()).add(fn_of(strip_generics(n)))
    nlit = 0
    for owner, lits in sorted(inv.items()):
        names = set(l for l, _, _ in lits)
        # literals reachable through one level of local helper calls count as "accompanying"
        reach = set(names)
        for callee in callgraph.get(owner, ()):
            reach |= set(l for l, _, _ in inv.get(callee, []))
        for lit, kind, wh in lits:
            nlit += 1
            if lit.startswith("'"):
                if lit not in RESERVED_LIFETIMES:
                    rep.add("G-HYGIENE", "%s lifetime %s" % (owner, lit), "the generator emits the lifetime literal `%s`" % lit, where=wh)
                continue
            if lit in KEYWORDS or lit in RESERVED or lit in CRATES or lit in ATTR_KEYS or lit in METHODS:
                continue
            if lit in NEEDS_PARENT:
                parent = NEEDS_PARENT[lit]
                ok = (parent is None or parent in reach) and seps.get(owner, 0) + sum(seps.get(c, 0) for c in callgraph.get(owner, ())) >= 1
                if lit == "Impl":
                    ok = seps.get(owner, 0) + sum(seps.get(c, 0) for c in callgraph.get(owner, ())) >= 2 or owner.endswith("GenericIdents::<'c>::new")
                if not ok:
                    rep.add("G-HYGIENE", "%s bare %s" % (owner, lit),
                            "`%s` emits the identifier `%s` without its absolute path (`::core::%s::%s`): a user item named `%s` would capture it"
                            % (owner, lit, parent, lit, lit), where=wh)
                continue
            rep.add("G-HYGIENE", "%s unknown literal %s" % (owner, lit),
                    "`%s` emits the identifier literal `%s`, which is neither a keyword, a reserved generic/receiver name, a crate root, nor part of an absolute ::core path"
                    % (owner, lit), where=wh)
    rep.count("identifier_literals_classified", nlit)
    rep.floor("identifier_literals_classified", 60)  # vacuity guard, not an exact count (94 today)
    # facade is no_std
    with open(os.path.join(REPO, "src", "lib.rs")) as f:
        src = f.read()
    if not re.search(r"^#!\[no_std\]", src, re.M):
        rep.add("G-HYGIENE", "facade no_std", "the facade crate is no longer #![no_std]")
    # ---- W: hostile scope — everything must compile and mean the same
    # the hostile crate depends on entrait only: with the cargo feature it has no direct `unimock` dependency,
    # so every path the nested unimock expansion needs must go through ::entrait::__unimock as well
    configs = ["plain", "unimock_test"] if tier == "quick" else ["plain", "test", "unimock", "unimock_test"]
    programs = 0
    for cfg in configs:
        ld = load(rep, "hostile", cfg)
        crate = ld.crate
        for exp in crate.expansions:
            programs += 1
            if exp.mode in ("fn", "mod"):
                check_fnmod_delegation(rep, crate, exp, cfg)
                check_fnmod_predicates(rep, crate, exp, cfg)
                v = FnModView(crate, exp)
                if v.trait is not None:
                    tms = {m["path"].split("::")[-1]: m for m in trait_methods(crate, v.trait)}
                    for o in v.originals:
                        tm = tms.get(o["path"].split("::")[-1])
                        if tm is not None and o["asyncness"]:
                            check_pair(rep, "%s :: %s" % (exp.ident(), o["path"].split("::")[-1]), exp, tm, future_info(o),
                                       not (exp.attr and exp.attr.opts.get("?Send")), cfg)
            elif exp.mode == "trait":
                v = check_trait_forwarding(rep, crate, exp, cfg)
                if exp.attr and exp.attr.positional:
                    check_inversion_traits(rep, crate, exp, v, cfg)
                else:
                    check_trait_predicates(rep, crate, exp, cfg)
            elif exp.mode == "impl":
                check_implblock(rep, crate, exp, cfg)
        # no generated item may mention a decoy
        decoy = re.compile(r"crate::h_\w+(::\w+)*::(Impl|Box|Pin|Unimock|Future|Send|Sync|Sized2|AsRef|Borrow|Any)\b")
        # (traits the macro GENERATES under a user-chosen name — even one like `Sync` — are not decoys: another
        #  invocation may legitimately name them in a dependency bound)
        generated_traits = set(d["path"] for e in crate.expansions for d in e.defs if d["kind"] == "Trait")
        for exp in crate.expansions:
            own = set(generated_traits)
            for d in exp.defs:
                if d["kind"] not in ("Impl", "Trait", "AssocFn"):
                    continue
                texts = [c["s"] for c in (d.get("predicates") or {}).get("own", [])]
                texts += [c["s"] for c in d.get("super_predicates", [])] + [c["s"] for c in d.get("output_bounds", [])]
                if d.get("self_ty_s"):
                    texts.append(d["self_ty_s"])
                rep.count("generated_items_scanned")
                for t in texts:
                    m = decoy.search(t.replace("h_", "crate::h_", 1) if t.startswith("h_") else t)
                    m = m or decoy.search(re.sub(r"\b(h_\w+::)", r"crate::\1", t))
                    if m and not any(m.group(0).replace("crate::", "") in o for o in own):
                        rep.add("W-CAPTURE", "%s decoy %s" % (exp.ident(), m.group(2)),
                                "a generated item of `%s` refers to the local decoy `%s` (name capture): %s" % (exp.ident(), m.group(0), t),
                                where=exp.label())
    rep.floor("generated_items_scanned", 150)
    rep.coverage.update({"programs": programs,
                         "disagreements_checked": rep.counters.get("generated_items_scanned", 0) + nlit,
                         "explanation": "G: the complete inventory of identifier literals the generator can emit (constant operands of quote's push_ident / Ident::new / Lifetime::new in the MIR of entrait_macros, independent of quote!/push_tokens! style) is classified: keyword, reserved generic/receiver identifier {EntraitT, __impl, T, Target}, crate root, attribute key, adapter method name, or a ::core path segment that must be accompanied by its parent module literal and path separators in the same (or a directly called) emitter; anything else is reported. W: a #![no_std] crate without imports, macro invoked as ::entrait::entrait, every module defining decoys (Impl, Box, Pin, Future, Send, Sync, AsRef, Borrow, core, entrait, std, …) and traits *named* Sync/Send/Future/AsRef/Impl being generated: it must compile, and R-DELEG / R-PRED / provider-bound / future-bound rules (whose expected sets are written with ::core / implementation paths) must hold, and no predicate, supertrait, self type or opaque bound of a generated item may mention a decoy DefId."})
    return rep.finish()
