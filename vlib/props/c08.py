"""C08 — module mode: the trait's methods are exactly the module's non-private functions."""
from ..common import Report
from ..corpus import load, load_repo_tests, load_repo_examples
from ..docgen import load_repo_docs
from ..crossgen import load_cross
from ..modgen import load_modseq
from ..common import CheckError
from ..wrules import FnModView, trait_methods, last_seg, check_fnmod_delegation
from .c13 import resolve_vis


def run(tier):
    rep = Report("C08", tier, "translation_validation")
    configs = ["plain", "unimock_test"] if tier == "quick" else ["plain", "test", "unimock", "unimock_test"]
    programs = 0
    loaded = [(cfg, load(rep, "pos", cfg)) for cfg in configs]
    loaded += [(cfg, load_cross(rep, cfg, tier)) for cfg in configs]
    # script-enumerated item sequences (singles, edges, adjacent pairs over a 66-element alphabet)
    loaded += [(cfg, load_modseq(rep, cfg, tier)) for cfg in (["plain"] if tier == "quick" else ["plain", "unimock_test"])]
    if tier == "thorough":
        loaded.append(("unimock_test", load_repo_tests(rep)))
        loaded += [("unimock_test", ld) for ld in load_repo_examples(rep)]
        loaded.append(("unimock_test", load_repo_docs(rep)))
    for cfg, ld in loaded:
        crate = ld.crate
        for exp in crate.expansions:
            if exp.mode != "mod":
                continue
            programs += 1
            key0 = exp.ident()
            v = FnModView(crate, exp)
            rep.count("modules_checked")
            if v.trait is None:
                rep.add("R-METHODS", key0 + " trait", "no trait `%s` generated inside the module" % exp.attr.trait_name, where=exp.label())
                continue
            # oracle: Fn items *directly* in the module whose HIR visibility span is non-empty, in definition order
            want = [last_seg(o["path"]) for o in v.all_fns if o.get("vis_written")]
            private = [last_seg(o["path"]) for o in v.all_fns if not o.get("vis_written")]
            got = [last_seg(m["path"]) for m in trait_methods(crate, v.trait)]
            gen_wants = getattr(crate, "modseq_wants", None)
            if gen_wants is not None:
                i = int(last_seg(v.scope)[1:])
                if gen_wants[i] != want:
                    raise CheckError("modgen: generator expects methods %s for module %s but rustc's item tree says %s" % (gen_wants[i], v.scope, want))
                rep.count("module_sequences_checked")
            rep.count("functions_classified", len(v.all_fns))
            if len(rep.samples) < 12:
                rep.sample({"module": v.scope, "config": cfg, "trait_methods": got, "private_fns": private})
            if got != want:
                extra = [g for g in got if g not in want]
                missing = [w for w in want if w not in got]
                what = []
                if extra:
                    what.append("methods without a visible function of that name directly in the module: %s" % extra)
                if missing:
                    what.append("visible functions without a method: %s" % missing)
                if not extra and not missing:
                    what.append("order differs")
                rep.add("R-METHODS", key0 + " methods", "trait methods %s vs visible functions %s (%s)" % (got, want, "; ".join(what)),
                        where=exp.label())
            # every method reaches its own function (R-DELEG)
            check_fnmod_delegation(rep, crate, exp, cfg)
            # the trait is importable from the parent under the requested name and visibility
            parent = crate.get(exp.module)
            if parent is not None and parent["kind"] != "Mod":
                continue  # module declared inside a function body: no module parent to re-export into
            entries = [c for c in (parent or {}).get("children", []) if c["name"] == (last_seg(v.trait["path"]) if "$" in exp.attr.trait_name else exp.attr.trait_name) and c["res_kind"] == "Trait"]
            uses = [d for d in exp.defs if d["kind"] == "Use" and d.get("parent") == exp.module]
            if not entries or not uses:
                rep.add("R-REEXPORT", key0 + " reexport", "the trait is not re-exported into the module's parent", where=exp.label())
            else:
                e = entries[0]
                want_vis = resolve_vis(exp.attr.trait_vis, exp.module)
                if e["res"] != v.trait["path"] or e["vis"] != want_vis:
                    rep.add("R-REEXPORT", key0 + " reexport-vis", "parent sees `%s` -> `%s` with visibility %s; expected the generated trait with %s"
                            % (e["name"], e["res"], e["vis"], want_vis), where=exp.label())
    rep.floor("modules_checked", 24)
    rep.floor("module_sequences_checked", 500)
    rep.floor("functions_classified", 80)
    rep.coverage.update({"programs": programs, "disagreements_checked": rep.counters.get("functions_classified", 0),
                         "explanation": "for every mod-input expansion: ordered list of the generated trait's methods == ordered list of Fn items whose DefId parent is the module itself and whose HIR visibility span is non-empty (oracle from rustc's own item tree, independent of the macro's token splitter: functions in impls, nested modules, extern blocks, macro_rules bodies and const blocks have other parents); each method delegates to its own function; a `use` defined by the same expansion makes the trait nameable from the parent with the requested visibility. Witness matrix: qualifier combinations async/unsafe/extern/const x visibilities pub, pub(crate), pub(super), pub(in path), pub(self), interleaved with 15 other item kinds containing `fn` tokens. Script-enumerated item sequences (vlib/modgen.py): an alphabet of 50 opaque module items (structs/enums/unions with fn-pointer fields and `=` defaults, consts/statics with block, struct-literal, if/else and closure initialisers, type aliases, uses with braces, extern crate, inherent/trait/unsafe impls incl. `impl Tr for fn() -> u8` and where clauses with `Item = u8`, traits, nested modules, extern blocks, macro_rules and macro invocations, private fns of every qualifier, cfg'd body-less fn, derive/doc attributes, visibility-prefixed non-fn items) and 16 visible-function forms; every element alone between two visible functions and at the very start and end of a module, every opaque element adjacent to four visible kinds in both orders (quick), every ordered pair of elements adjacent (thorough, 4 488 modules). The generator's own expectation is cross-checked against the rustc oracle.",
                         "configs": configs})
    return rep.finish()
