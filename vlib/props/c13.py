"""C13 — generated traits have exactly the requested visibility."""
import re

from ..common import Report
from ..corpus import load, load_repo_tests, load_repo_examples
from ..docgen import load_repo_docs
from ..crossgen import load_cross
from ..wrules import FnModView, TraitView, last_seg


def resolve_vis(text, module):
    """Visibility written in the attribute, resolved at the scope of the invocation."""
    t = re.sub(r"\s+", "", text or "")
    if t == "":
        return {"restricted": module}
    if t == "pub":
        return "public"
    if t == "pub(crate)":
        return {"restricted": "crate"}
    if t == "pub(self)":
        return {"restricted": module}
    if t == "pub(super)":
        return {"restricted": module.rsplit("::", 1)[0] if "::" in module else "crate"}
    m = re.match(r"^pub\(in(.*)\)$", t)
    if m:
        p = m.group(1)
        if p.startswith("self"):
            p = module + p[4:]
        while p.startswith("super"):
            module = module.rsplit("::", 1)[0]
            p = module + p[5:]
        return {"restricted": p}
    return None


def run(tier):
    rep = Report("C13", tier, "translation_validation")
    configs = ["plain", "unimock_test"] if tier == "quick" else ["plain", "test", "unimock", "unimock_test"]
    programs = 0
    loaded = [(cfg, load(rep, "pos", cfg)) for cfg in configs]
    loaded += [(cfg, load_cross(rep, cfg, tier)) for cfg in configs]
    if tier == "thorough":
        loaded.append(("unimock_test", load_repo_tests(rep)))
        loaded += [("unimock_test", ld) for ld in load_repo_examples(rep)]
        loaded.append(("unimock_test", load_repo_docs(rep)))
    for cfg, ld in loaded:
        crate = ld.crate
        for exp in crate.expansions:
            key0 = exp.ident()
            parent_def = crate.get(exp.module) if exp.module else None
            if parent_def is not None and parent_def["kind"] != "Mod":
                rep.count("skipped_items_in_fn_bodies")
                continue  # declared inside a function body: block-local items have no module-level visibility to compare
            if exp.mode in ("fn", "mod") and exp.attr and exp.attr.trait_name:
                v = FnModView(crate, exp)
                if v.trait is None:
                    continue
                want = resolve_vis(exp.attr.trait_vis, exp.module)
                if want is None:
                    rep.note("cannot interpret requested visibility `%s`" % exp.attr.trait_vis)
                    continue
                programs += 1
                rep.count("traits_checked")
                if exp.mode == "fn":
                    got = v.trait.get("vis")
                    rep.sample({"trait": v.trait["path"], "requested": exp.attr.trait_vis or "(none)", "resolved": got, "fn_vis": v.originals[0].get("vis") if v.originals else None})
                    if got != want:
                        rep.add("R-VIS", key0 + " trait-vis", "trait `%s` has visibility %s, requested `%s` = %s"
                                % (v.trait["path"], got, exp.attr.trait_vis or "(none)", want), where=exp.label())
                else:
                    parent = crate.get(exp.module)
                    entries = [c for c in (parent or {}).get("children", []) if c["name"] == (last_seg(v.trait["path"]) if "$" in exp.attr.trait_name else exp.attr.trait_name) and c["res_kind"] == "Trait"]
                    if not entries:
                        rep.add("R-VIS", key0 + " reexport", "trait `%s` is not nameable from the module's parent `%s`"
                                % (exp.attr.trait_name, exp.module), where=exp.label())
                        continue
                    e = entries[0]
                    rep.sample({"trait": v.trait["path"], "requested": exp.attr.trait_vis or "(none)", "reexport": e})
                    if e["res"] != v.trait["path"]:
                        rep.add("R-VIS", key0 + " reexport-target", "name `%s` in the parent resolves to `%s`, not the generated trait"
                                % (e["name"], e["res"]), where=exp.label())
                    if e["vis"] != want:
                        rep.add("R-VIS", key0 + " reexport-vis", "re-export of `%s` has visibility %s, requested `%s` = %s"
                                % (exp.attr.trait_name, e["vis"], exp.attr.trait_vis or "(none)", want), where=exp.label())
                    # the trait inside the module must itself be at least as visible as the re-export needs,
                    # and for a private request not wider than the parent
                    tv = v.trait.get("vis")
                    if want != "public" and tv == "public":
                        rep.add("R-VIS", key0 + " inner-vis", "trait inside the module is `pub` although `%s` was requested"
                                % (exp.attr.trait_vis or "(none)"), where=exp.label())
            elif exp.mode == "trait":
                v = TraitView(crate, exp)
                if v.trait is None or v.impl_trait is None:
                    continue
                programs += 1
                rep.count("traits_checked")
                rep.sample({"trait": v.trait["path"], "vis": v.trait.get("vis"), "target": v.impl_trait["path"], "target_vis": v.impl_trait.get("vis")})
                if v.impl_trait.get("vis") != v.trait.get("vis"):
                    rep.add("R-VIS", key0 + " target-vis", "delegation-target trait `%s` has visibility %s, the trait has %s"
                            % (v.impl_trait["path"], v.impl_trait.get("vis"), v.trait.get("vis")), where=exp.label())
    rep.floor("traits_checked", 150)
    rep.coverage.update({"programs": programs, "disagreements_checked": rep.counters.get("traits_checked", 0),
                         "explanation": "tcx.visibility of every generated trait (fn mode), resp. the visibility of the re-export entry in the parent module's children (mod mode), equals the visibility written before the trait name resolved at the attribute's scope (none = private to the invoking module); equality excludes wider and narrower. Delegation-target traits: visibility equals the source trait's. Matrix: 6 requested visibilities x 3 function visibilities for fn, 3 x 2 for mod, 4 trait visibilities x {static, dynamic} targets, plus every other expansion of the corpus.",
                         "configs": configs})
    return rep.finish()
