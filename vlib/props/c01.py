"""C01 — calling a generated trait method is calling the original function."""
import re

from ..common import Report, log
from ..corpus import load, load_repo_tests, load_repo_examples
from ..docgen import load_repo_docs
from ..crossgen import load_cross
from ..wrules import check_fnmod_delegation

RULE_TEXT = ("R-DELEG over every fn/mod expansion of the witness corpus: the type-checked HIR body of each "
             "generated impl method is exactly one call whose resolved callee is the original function of the "
             "same name (same scope), whose operands are the method's own parameter bindings each once in "
             "declared order (receiver first unless no_deps), awaited iff the original is async; no other "
             "call, statement, await or control flow; MIR cross-check for sync bodies. "
             "G-ORDER (universal, on the MIR of entrait_macros): no order-sensitive operation (rev/skip/take/zip/"
             "sort/swap/remove/nth/…) is applied to a list of FnArg / GenericParam / WherePredicate / TypeParamBound / "
             "Attribute / TraitFn / ModItem / ImplItem beyond the reviewed table rules/c01_order.json.")


ORDERED = re.compile(r"\b(FnArg|GenericParam|WherePredicate|TypeParamBound|Attribute|TraitItem|TraitFn|ModItem|ImplItem|SubAttribute|PatType)\b")
ORDER_SENSITIVE = re.compile(r"::(rev|skip|take|step_by|zip|chain|nth|sort\w*|swap|reverse|remove|pop|truncate|retain|dedup\w*|split_\w+|insert|"
                             r"index|index_mut|skip_while|take_while|cycle|swap_remove|drain|rotate_\w+|max\w*|min\w*|position|rposition|rfind|next_back|nth_back|"
                             r"rsplit\w*|chunks\w*|windows|partition\w*|interleave\w*|peekable|fuse|scan|flat_map|flatten|rev_\w+|sorted\w*)$")


def order_sites(facts):
    from ..grules import strip_generics, fn_of
    out = []
    for b in facts["bodies"]:
        if b.get("stolen"):
            continue
        for c in b["calls"]:
            d = strip_generics(c.get("def") or "")
            if not ORDER_SENSITIVE.search(d):
                continue
            tys = " ".join(c.get("gargs_s", []) + c["arg_tys"])
            el = sorted(set(ORDERED.findall(tys)))
            if el:
                out.append(((d, tuple(el)), b, c))
    return out


def order_rule(rep):
    """G (universal): the generator applies no order-sensitive operation to its ordered input lists beyond the
    reviewed table — this is what lets the verdict on arities 0..6 speak for arity n."""
    import json, os
    from ..common import VERIF
    from ..grules import load_gen, load_controls, fn_of, where
    ctl = set(fn_of(b["path"]).split("::")[-1] for k, b, c in order_sites(load_controls()))
    for want in ("ctl_order_rev", "ctl_order_skip", "ctl_order_take", "ctl_order_swap"):
        rep.require(want in ctl, "positive control `%s` was not flagged by the order rule" % want)
    rep.require("ctl_order_ok" not in ctl, "negative control `ctl_order_ok` was flagged by the order rule")
    with open(os.path.join(VERIF, "rules", "c01_order.json")) as f:
        table = {(s["callee"], tuple(s["elems"])): s for s in json.load(f)["sites"]}
    facts, _ = load_gen()
    seen = {}
    for key, b, c in order_sites(facts):
        seen.setdefault(key, []).append((b, c))
        rep.count("order_sensitive_sites")
    for key, occ in sorted(seen.items()):
        entry = table.get(key)
        desc = "%s on %s" % (key[0], "/".join(key[1]))
        if entry is None:
            for b, c in occ:
                rep.add("G-ORDER", "unreviewed " + desc, "`%s` applies the order-sensitive `%s` to a list of %s (a generated method could skip, repeat or permute parameters)"
                        % (fn_of(b["path"]), key[0], "/".join(key[1])), where=where(b, c))
        elif len(occ) > entry["count"]:
            rep.add("G-ORDER", "more-sites " + desc, "%d sites of `%s`, %d were reviewed (%s): %s"
                    % (len(occ), desc, entry["count"], entry["reason"], ["%s@%s" % (fn_of(b["path"]).split("::")[-1], where(b, c)) for b, c in occ]))
    rep.floor("order_sensitive_sites", 5)


def run(tier):
    rep = Report("C01", tier, "translation_validation")
    order_rule(rep)
    configs = ["plain", "unimock_test"] if tier == "quick" else ["plain", "test", "unimock", "unimock_test"]
    programs = 0
    loaded = [(cfg, load(rep, "pos", cfg)) for cfg in configs]
    loaded += [(cfg, load_cross(rep, cfg, tier)) for cfg in configs]
    if tier == "thorough":
        loaded.append(("unimock_test", load_repo_tests(rep)))
        loaded += [("unimock_test", ld) for ld in load_repo_examples(rep)]
        loaded.append(("unimock_test", load_repo_docs(rep)))
    for cfg, ld in loaded:
        for exp in ld.crate.expansions:
            if exp.mode in ("fn", "mod"):
                check_fnmod_delegation(rep, ld.crate, exp, cfg)
                programs += 1
    rep.floor("generated_methods_checked", 60)
    rep.coverage.update({
        "programs": programs,
        "disagreements_checked": rep.counters.get("generated_methods_checked", 0),
        "explanation": RULE_TEXT,
        "configs": configs,
        "exhaustive": False,
    })
    rep.assumptions += ["rustc's type checker resolves callees and local bindings correctly",
                        "the witness matrix is finite; arities/receivers/patterns outside it are covered only by the generator-side order rule"]
    return rep.finish()
