"""C01 — calling a generated trait method is calling the original function."""
from ..common import Report, log
from ..corpus import load, load_repo_tests
from ..wrules import check_fnmod_delegation

RULE_TEXT = ("R-DELEG over every fn/mod expansion of the witness corpus: the type-checked HIR body of each "
             "generated impl method is exactly one call whose resolved callee is the original function of the "
             "same name (same scope), whose operands are the method's own parameter bindings each once in "
             "declared order (receiver first unless no_deps), awaited iff the original is async; no other "
             "call, statement, await or control flow; MIR cross-check for sync bodies.")


def run(tier):
    rep = Report("C01", tier, "translation_validation")
    configs = ["plain", "unimock_test"] if tier == "quick" else ["plain", "test", "unimock", "unimock_test"]
    programs = 0
    loaded = [(cfg, load(rep, "pos", cfg)) for cfg in configs]
    if tier == "thorough":
        loaded.append(("unimock_test", load_repo_tests(rep)))
    for cfg, ld in loaded:
        for exp in ld.crate.expansions:
            if exp.mode in ("fn", "mod"):
                check_fnmod_delegation(rep, ld.crate, exp, cfg)
                programs += 1
    rep.floor("generated_methods_checked", 60)
    rep.coverage.update({
        "programs": programs,
        "disagreements_checked": rep.counters.get("generated_methods_checked", 0),
        "explanation": RULE_TEXT,
        "configs": configs,
        "exhaustive": False,
    })
    rep.assumptions += ["rustc's type checker resolves callees and local bindings correctly",
                        "the witness matrix is finite; arities/receivers/patterns outside it are covered only by the generator-side order rule"]
    return rep.finish()
