"""C05 — concrete-dependency functions yield a leaf trait any application can adopt."""
from ..common import Report
from ..corpus import load, load_repo_tests, load_repo_examples
from ..docgen import load_repo_docs
from ..crossgen import load_cross
from ..model import ty_s
from ..wrules import (is_mock_impl, FnModView, check_fnmod_delegation, entrait_depth, in_macro, is_impl_adt, pred_set)


def run(tier):
    rep = Report("C05", tier, "translation_validation")
    configs = ["plain", "unimock_test"] if tier == "quick" else ["plain", "test", "unimock", "unimock_test"]
    programs = 0
    loaded = [(cfg, load(rep, "pos", cfg)) for cfg in configs]
    loaded += [(cfg, load_cross(rep, cfg, tier)) for cfg in configs]
    if tier == "thorough":
        loaded.append(("unimock_test", load_repo_tests(rep)))
        loaded += [("unimock_test", ld) for ld in load_repo_examples(rep)]
        loaded.append(("unimock_test", load_repo_docs(rep)))
    for cfg, ld in loaded:
        for exp in ld.crate.expansions:
            if exp.mode != "fn":
                continue
            v = FnModView(ld.crate, exp)
            if not v.originals or v.deps_kind(v.originals[0]) != "concrete":
                continue
            programs += 1
            key0 = exp.ident()
            check_fnmod_delegation(rep, ld.crate, exp, cfg)
            if v.trait is None:
                continue
            orig = v.originals[0]
            t = orig["sig"]["inputs"][0]
            while t.get("t") == "ref":
                t = t["inner"]
            impls = [i for i in v.impls if not is_mock_impl(i)]
            direct = [i for i in impls if entrait_depth(i) == 1]
            nested = [i for i in impls if entrait_depth(i) > 1]
            rep.count("concrete_expansions")
            rep.sample({"fn": orig["path"], "config": cfg, "impls": [i["path"] for i in impls]})
            if len(direct) != 1 or ty_s(direct[0]["self_ty"]) != ty_s(t):
                rep.add("R-LEAF", key0 + " direct-impl", "expected exactly one direct impl for the concrete type `%s`, found %s"
                        % (ty_s(t), [ty_s(i["self_ty"]) for i in direct]), where=exp.label())
            else:
                # the function's own (non-deps) generics are lifted to the trait; nothing else may condition the impl
                lifted = pred_set(orig["predicates"]["own"])
                extra = pred_set(direct[0]["predicates"]["own"]) - lifted
                fn_generics = set(g["name"] for g in orig["generics"]["own"])
                extra_generics = [g["name"] for g in direct[0]["generics"]["own"] if g["name"] not in fn_generics]
                if extra or extra_generics:
                    rep.add("R-LEAF", key0 + " direct-generic", "impl for the concrete type is conditional beyond the function's own generics: %s %s"
                            % (sorted(extra), extra_generics), where=exp.label())
            if len(nested) != 1 or not is_impl_adt(nested[0]["self_ty"]):
                rep.add("R-LEAF", key0 + " forward-impl", "expected exactly one forwarding impl for ::entrait::Impl<T>, found %s"
                        % [ty_s(i["self_ty"]) for i in nested], where=exp.label())
            else:
                actual = pred_set(nested[0]["predicates"]["own"])
                tnames = [g["name"] for g in v.trait["generics"]["own"] if g["kind"] != "lifetime" and g["name"] != "Self"]
                expected = {"EntraitT: core::marker::Sync", "EntraitT: 'static",
                            "EntraitT: %s%s" % (v.trait["path"], "<" + ", ".join(tnames) + ">" if tnames else "")}
                from ..model import mentions
                for c in v.trait["predicates"]["own"]:
                    if c["k"] == "trait" and c["trait"] in ("core::marker::Sized", "core::marker::MetaSized"):
                        continue
                    if not mentions(c, lambda n: n.get("t") == "param" and n.get("name") == "Self"):
                        from ..model import clause_s
                        expected.add(clause_s(c))
                rep.count("predicates_compared", len(actual | expected))
                if actual != expected:
                    rep.add("R-PRED", key0 + " forward-preds", "forwarding impl requires %s, expected exactly %s"
                            % (sorted(actual), sorted(expected)), where=exp.label())
            for i in impls:
                if i["self_ty"].get("t") == "param":
                    rep.add("R-LEAF", key0 + " blanket", "concrete-deps trait has a blanket impl `%s`" % i["path"], where=exp.label())
    rep.floor("concrete_expansions", 18)
    rep.coverage.update({"programs": programs,
                         "disagreements_checked": rep.counters.get("generated_methods_checked", 0) + rep.counters.get("predicates_compared", 0),
                         "explanation": "per concrete-deps expansion: exactly one non-generic impl for the concrete type (R-DELEG to the function) and one impl for Impl<T> with predicates {T: Sync, T: 'static, T: Trait} forwarding <T as Trait>::m(self.as_ref(), args..); no blanket impl. Hand-written impls in the witness (OtherApp) must keep compiling.",
                         "configs": configs})
    return rep.finish()
