"""C18 — foreign attributes stay where the user put them."""
import os
import re

from ..common import Report
from ..corpus import WIT, load
from ..expq import Group, Tok, flat, items_of, text_of
from ..twin import Walker, load_pair
from ..wrules import TraitView, trait_methods, impl_methods, last_seg

OWNED = ("unimock", "automock", "mockall", "async_trait", "entrait")


def fn_items_with_params(tts, out):
    """Yield (name, parameter group) of every fn signature at any nesting depth of the token trees."""
    for i, t in enumerate(tts):
        if isinstance(t, Group):
            fn_items_with_params(t.items, out)
        elif isinstance(t, Tok) and t.text == "fn" and i + 1 < len(tts) and isinstance(tts[i + 1], Tok) and tts[i + 1].kind == "ident":
            for u in tts[i + 2:i + 8]:
                if isinstance(u, Group) and u.open == "(":
                    out.append((tts[i + 1].text, u))
                    break
                if isinstance(u, Group) and u.open == "{":
                    break


def run(tier):
    rep = Report("C18", tier, "translation_validation")
    crate_dir = os.path.join(WIT, "pos")
    configs = [("plain", (), ())] if tier == "quick" else [("plain", (), ()), ("unimock_test", ("unimock",), ("test",))]
    from ..traitgen import generate as traitseq_generate
    crates = [(crate_dir, "wit_pos", cfgname, feats, cfgs) for cfgname, feats, cfgs in configs]
    # script-enumerated traits (vlib/traitgen.py): header shapes x selectors x method shapes
    crates.append((traitseq_generate(tier)[0], "wit_traitseq", "plain", (), ()))
    for cdir, cname, cfgname, feats, cfgs in crates:
        R, T, attrs = load_pair(rep, cdir, cname, feats, cfgs)
        rmods = {it.kind_and_name()[1]: it for it in R if it.kind_and_name()[0] == "mod"}
        silent = Report("C18", tier, "other")
        for t in T:
            k, n = t.kind_and_name()
            if k == "mod" and attrs.get(n, []) is None:
                continue  # `//! twin: skip`
            if k != "mod" or t.body_group() is None or n not in rmods or rmods[n].body_group() is None:
                continue
            w = Walker(silent)
            w.walk(items_of(t.body_group().items), items_of(rmods[n].body_group().items), [n], attrs.get(n, []))
            for p in w.pairs:
                if p.attr is None:
                    continue
                key = "%s %s %s" % ("::".join(p.module), p.kind, p.name)
                generated = list(p.generated) + list(getattr(p, "inner_generated", []))
                if p.kind in ("fn", "mod", "impl"):
                    rep.count("entraited_items")
                    # (1) attributes of the original are not copied onto what is generated
                    user_attrs = set(p.t.attr_texts())
                    if p.kind == "mod":
                        for it in items_of(p.t.body_group().items):
                            user_attrs.update(it.attr_texts())
                    if p.kind == "impl":
                        for it in items_of(p.t.body_group().items):
                            user_attrs.update(it.attr_texts())
                    user_attrs = set(a for a in user_attrs if not any(o in a for o in OWNED))
                    for g in generated:
                        gk = g.kind_and_name()
                        if gk[0] not in ("trait", "impl"):
                            continue
                        texts = list(g.attr_texts())
                        if g.body_group() is not None:
                            for it in items_of(g.body_group().items):
                                texts += it.attr_texts()
                        rep.count("generated_items_checked")
                        for a in texts:
                            if a in user_attrs:
                                rep.add("W-ATTR", key + " copied", "attribute `%s` of the original was copied onto the generated %s `%s`"
                                        % (a[:80], gk[0], gk[1] or text_of(g.header())[:40]))
                        # (2) generated signatures carry no parameter attributes
                        fns = []
                        fn_items_with_params(g.tts, fns)
                        for name, grp in fns:
                            rep.count("generated_signatures_checked")
                            if any(isinstance(x, Tok) and x.text == "#" for x in grp.items):
                                rep.add("W-ATTR", key + " param-attr", "generated signature of `%s` in %s `%s` carries a parameter attribute: %s"
                                        % (name, gk[0], gk[1], text_of([grp])[:120]))
                elif p.kind == "trait":
                    rep.count("entraited_traits")
                    # (3a) the TRAIT's own attributes (docs, lints, deprecation, foreign macros) stay on the trait: none of
                    #      the generated items (delegation-target trait, selector trait, impls) carries a copy
                    trait_attrs = set(a for a in p.t.attr_texts() if not any(o in a for o in OWNED))
                    for g in generated:
                        gk = g.kind_and_name()
                        if gk[0] not in ("trait", "impl"):
                            continue
                        rep.count("generated_items_checked")
                        for a in g.attr_texts():
                            if a in trait_attrs:
                                rep.add("W-ATTR", key + " trait-attr copied", "attribute `%s` of the entraited trait was copied onto the generated %s `%s`"
                                        % (a[:80], gk[0], gk[1] or text_of(g.header())[:40]))
                    # (3) trait-method attributes are mirrored onto the delegating methods
                    timpl = [g for g in generated if g.kind_and_name()[0] == "impl" and " for " in (" " + " ".join(g.words()) + " ") and "Impl" in g.words()]
                    tmethods = {}
                    if p.r.body_group() is not None:
                        for it in items_of(p.r.body_group().items):
                            kn = it.kind_and_name()
                            if kn[0] == "fn":
                                tmethods[kn[1]] = it
                    for g in timpl:
                        if g.body_group() is None:
                            continue
                        for it in items_of(g.body_group().items):
                            kn = it.kind_and_name()
                            if kn[0] != "fn" or kn[1] not in tmethods:
                                continue
                            rep.count("delegating_methods_checked")
                            want = [a for a in tmethods[kn[1]].attr_texts()]
                            have = it.attr_texts()
                            missing = [a for a in want if a not in have and "track_caller" not in a]
                            if missing and not getattr(p.attr, "async_trait", False):
                                rep.add("W-ATTR", key + " :: %s mirror" % kn[1], "attributes of trait method `%s` are not mirrored onto the delegating method: %s"
                                        % (kn[1], missing))
        # (4) markers: every marker string of the witness source occurs exactly as often in the expansion as the rule says
        if cname != "wit_pos":
            continue
        mod = rmods.get("c18_attrs")
        rep.require(mod is not None, "witness module c18_attrs missing from the expansion")
        text = " ".join(flat(mod.tts))
        src = open(os.path.join(crate_dir, "src", "c18_attrs.rs")).read()
        markers = sorted(set(re.findall(r'"(M\d\d(?:-mirrored3?)?)"', src)))
        rep.require(len(markers) >= 14, "marker inventory of c18_attrs shrank")
        for m in markers:
            rep.count("markers_checked")
            n = text.count('"%s"' % m)
            want = 3 if m.endswith("-mirrored3") else (2 if m.endswith("-mirrored") else 1)
            if n != want:
                rep.add("W-ATTR", "marker %s" % m, "marker attribute %s occurs %d time(s) in the expansion, expected %d (%s)"
                        % (m, n, want, "on the trait method (and the delegation-target copy) and mirrored on the delegating method" if want >= 2 else "on the original item only"))
        for fname in ("attr_fn", "attr_async", "in_mod", "one"):
            n = len(re.findall(r"\bONCE_%s\b" % fname, text))
            rep.count("once_markers_checked")
            if n != 1:
                rep.add("W-ATTR", "once %s" % fname, "the foreign attribute macro on `%s` ran %d time(s), expected exactly once" % (fname, n))
    # (5) cfg on trait methods: disabled methods are absent from trait and impl (type-checked facts)
    ld = load(rep, "pos", "plain")
    for exp in ld.crate.expansions:
        if exp.mode == "trait" and exp.module == "crate::c18_attrs":
            v = TraitView(ld.crate, exp)
            if v.trait is None or not v.impls:
                continue
            names = [last_seg(m["path"]) for m in trait_methods(ld.crate, v.trait)]
            inames = sorted(impl_methods(ld.crate, v.impls[0]))
            rep.count("cfg_traits_checked")
            if "cfg_off" in names or "cfg_off" in inames or sorted(names) != inames:
                rep.add("W-ATTR", exp.ident() + " cfg-methods", "cfg-disabled trait method leaks: trait %s, impl %s" % (names, inames))
    # (6) cfg-disabled functions of modules / impl blocks must not leave a dangling method (kf corpus)
    from ..facts import build_with_skips
    kf_dir = os.path.join(WIT, "kf")
    facts, failures, wall = build_with_skips(kf_dir, "wit_kf")
    for mod in ("c18_cfg_mod_fn", "c18_cfg_impl_fn"):
        rep.count("cfg_disabled_fn_witnesses")
        if mod in failures:
            d = failures[mod][0]
            rep.add("W-compile", "kf/%s" % mod, "a `#[cfg(any())]` function in an entraited %s leaves a dangling trait method: %s %s"
                    % ("module" if "mod" in mod else "impl block", d.get("code") or "", d["message"][:140]))
    rep.floor("entraited_items", 100)
    rep.floor("generated_signatures_checked", 300)
    rep.floor("delegating_methods_checked", 60)
    rep.coverage.update({"programs": rep.counters.get("entraited_items", 0) + rep.counters.get("entraited_traits", 0),
                         "disagreements_checked": rep.counters.get("generated_signatures_checked", 0) + rep.counters.get("markers_checked", 0),
                         "explanation": "over the whole positive corpus (twin-paired expansions): no attribute of an entraited fn/mod/impl (or of its inner functions) other than async_trait/automock appears on a generated trait or impl or their items; no generated signature contains a parameter attribute; for entraited traits every attribute of a trait method is present on the corresponding delegating method. Marker attributes M01..M14 and a foreign attribute macro (`once`, emits one marker const per application) occur exactly once (mirrored ones twice). cfg(any()) trait methods are absent from trait and impl. cfg(any()) functions in entraited modules / impl blocks must not leave a dangling method (witness/kf)."})
    return rep.finish()
