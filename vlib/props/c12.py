"""C12 — async methods: exact Output, Send by default, opt-out honoured."""
from ..common import Report
from ..corpus import load, load_repo_tests, load_repo_examples
from ..docgen import load_repo_docs
from ..crossgen import load_cross
from ..model import ty_s, mentions
from ..wrules import (FnModView, TraitView, ImplBlockView, trait_methods, impl_methods, in_macro, last_seg, impls_of)

FUTURE = "core::future::future::Future"
SEND = "core::marker::Send"


def future_info(fn):
    """(is_future, Output as string, has Send bound) of a fn whose return type is `impl Future`."""
    bounds = fn.get("output_bounds")
    if not bounds:
        return (False, None, False)
    is_f = any(c["k"] == "trait" and c["trait"] == FUTURE for c in bounds)
    out = None
    for c in bounds:
        if c["k"] == "projection" and c["trait"] == FUTURE and c["assoc"] == "Output":
            out = ty_s(c["term"]) if isinstance(c["term"], dict) else str(c["term"])
    send = any(c["k"] == "trait" and c["trait"] == SEND for c in bounds)
    others = sorted(c["trait"] for c in bounds if c["k"] == "trait" and c["trait"] not in
                    (FUTURE, SEND, "core::marker::Sized", "core::marker::MetaSized"))
    return (is_f, out, send, others)


def boxed_future_info(fn):
    """async_trait shape: Pin<Box<dyn Future<Output = R> + Send + 'a>>."""
    out = fn["sig"]["output"]
    if not (out.get("t") == "adt" and out["path"] == "core::pin::Pin"):
        return None
    found = []

    def visit(n):
        if n.get("t") == "dyn" and (n.get("principal") or {}).get("trait") == FUTURE:
            found.append(n)
        return False
    mentions(out, visit)
    if not found:
        return None
    d = found[0]
    return {"send": SEND in d["autos"], "projections": d["projections"]}


def async_trait_attr_text(crate, exp):
    """Source text of the `#[async_trait…]` attribute written below the entrait attribute (or '')."""
    import re
    sp = exp.call_site
    lines = crate.source(sp["file"])
    text = lines[sp["hi_line"] - 1][sp["hi_col"]:] + "\n" + "\n".join(lines[sp["hi_line"]:sp["hi_line"] + 8])
    m = re.search(r"#\[\s*(?:::)?(?:\w+\s*::\s*)*async_trait\s*(\([^\]]*\))?\s*\]", text)
    return m.group(0) if m else ""


def run(tier):
    rep = Report("C12", tier, "translation_validation")
    configs = ["plain", "unimock_test"] if tier == "quick" else ["plain", "test", "unimock", "unimock_test"]
    programs = 0
    loaded = [(cfg, load(rep, "pos", cfg)) for cfg in configs]
    loaded += [(cfg, load_cross(rep, cfg, tier)) for cfg in configs]
    if tier == "thorough":
        loaded.append(("unimock_test", load_repo_tests(rep)))
        loaded += [("unimock_test", ld) for ld in load_repo_examples(rep)]
        loaded.append(("unimock_test", load_repo_docs(rep)))
    for cfg, ld in loaded:
        crate = ld.crate
        for exp in crate.expansions:
            key0 = exp.ident()
            want_send = not (exp.attr and exp.attr.opts.get("?Send"))
            uses_at = any(in_macro(d, ("async_trait",)) for d in exp.defs)
            if exp.mode in ("fn", "mod"):
                v = FnModView(crate, exp)
                if v.trait is None:
                    continue
                tms = {last_seg(m["path"]): m for m in trait_methods(crate, v.trait)}
                for o in v.originals:
                    name = last_seg(o["path"])
                    tm = tms.get(name)
                    if tm is None:
                        continue
                    if not o["asyncness"]:
                        if tm.get("asyncness") or (future_info(tm)[0] and not future_info(o)[0]):
                            rep.add("R-FUT", "%s :: %s sync" % (key0, name), "sync function became a future-returning trait method", where=exp.label())
                        continue
                    programs += 1
                    check_pair(rep, "%s :: %s" % (key0, name), exp, tm, future_info(o), want_send, cfg)
            elif exp.mode == "trait":
                v = TraitView(crate, exp)
                if v.trait is None or len(v.impls) != 1:
                    continue
                ims = impl_methods(crate, v.impls[0])
                traits = [(v.trait, "")]
                if v.impl_trait is not None:
                    traits.append((v.impl_trait, " (delegation target)"))
                for tr, tag in traits:
                    if uses_at and not in_macro(tr, ("async_trait",)):
                        rep.add("R-ASYNC-TRAIT", key0 + " trait-reapply" + tag, "async_trait was not re-applied to trait `%s`" % tr["path"], where=exp.label())
                    for tm in trait_methods(crate, tr):
                        name = last_seg(tm["path"])
                        im = ims.get(name)
                        if im is None:
                            continue
                        if uses_at:
                            if im.get("asyncness") or not in_macro(im, ("async_trait",)):
                                rep.add("R-ASYNC-TRAIT", "%s :: %s impl-reapply" % (key0, name),
                                        "async_trait was not re-applied to the generated impl method", where=exp.label())
                            bi = boxed_future_info(tm)
                            bim = boxed_future_info(im)
                            if (bi is None) != (bim is None):
                                rep.add("R-ASYNC-TRAIT", "%s :: %s boxed" % (key0, name), "trait and impl disagree on the boxed-future shape", where=exp.label())
                            if bi is not None:
                                programs += 1
                                rep.count("async_methods_checked")
                                rep.sample({"method": tm["path"], "config": cfg, "boxed": bi})
                                # async_trait's own `?Send` argument (written by the user below entrait) decides Send-ness here
                                at_send = "?Send" not in async_trait_attr_text(crate, exp)
                                if bi["send"] != at_send:
                                    rep.add("R-ASYNC-TRAIT", "%s :: %s send" % (key0, name),
                                            "async_trait future is %sSend but the async_trait attribute %s `?Send`"
                                            % ("" if bi["send"] else "not ", "has no" if at_send else "carries"), where=exp.label())
                                if bim is not None and bi["projections"] != bim["projections"]:
                                    rep.add("R-ASYNC-TRAIT", "%s :: %s output" % (key0, name), "boxed future Output differs between trait and impl: %s vs %s"
                                            % (bi["projections"], bim["projections"]), where=exp.label())
                            continue
                        if not im.get("asyncness"):
                            if tm.get("asyncness") or future_info(tm)[0]:
                                rep.add("R-FUT", "%s :: %s sync%s" % (key0, name, tag), "sync method became future-returning", where=exp.label())
                            continue
                        programs += 1
                        check_pair(rep, "%s :: %s%s" % (key0, name, tag), exp, tm, future_info(im), want_send, cfg)
            elif exp.mode == "impl" and uses_at:
                v = ImplBlockView(crate, exp)
                for timp in v.trait_impls:
                    if not in_macro(timp, ("async_trait",)):
                        rep.add("R-ASYNC-TRAIT", key0 + " impl-reapply", "async_trait was not re-applied to the generated trait impl", where=exp.label())
                    rep.count("async_trait_impls_checked")
    rep.floor("async_methods_checked", 40)
    rep.coverage.update({"programs": programs,
                         "disagreements_checked": rep.counters.get("async_methods_checked", 0),
                         "explanation": "per async original (fn/mod) or async impl method (trait mode): the generated trait method is a plain fn whose opaque return type has explicit bounds exactly {Future, Output == R} ∪ {Send iff ?Send absent}, R read from the original's own future; with async_trait: trait, impl methods and delegation-target trait are inside a nested async_trait expansion and return Pin<Box<dyn Future<Output = R> + Send>>",
                         "configs": configs})
    rep.assumptions.append("explicit_item_bounds of the RPITIT is what callers may rely on")
    return rep.finish()


def check_pair(rep, mkey, exp, tm, orig_info, want_send, cfg):
    rep.count("async_methods_checked")
    ti = future_info(tm)
    rep.sample({"method": tm["path"], "config": cfg, "future": ti, "original_output": orig_info[1]})
    if tm.get("asyncness"):
        rep.add("R-FUT", mkey + " rewrite", "trait method is still declared `async fn` (no explicit Send/Output contract)", where=exp.label())
        return
    if not ti[0]:
        rep.add("R-FUT", mkey + " future", "trait method does not return `impl Future` (returns %s)" % tm["sig"]["output_s"], where=exp.label())
        return
    nested_impl = str(orig_info[1]).startswith("opaque(") and str(ti[1]).endswith("::<anon>")
    # (`async fn f() -> impl Trait`: the original's Output is itself an opaque type and the trait method's a nested
    #  return-position impl Trait; the two are not comparable by name, C03 compares such outputs by their bounds)
    if ti[1] != orig_info[1] and not nested_impl:
        rep.add("R-FUT", mkey + " output", "future Output is `%s`, the original returns `%s`" % (ti[1], orig_info[1]), where=exp.label())
    if ti[2] != want_send:
        rep.add("R-FUT", mkey + " send", "future is %srequired to be Send but ?Send was %sgiven"
                % ("" if ti[2] else "not ", "" if not want_send else "not "), where=exp.label())
    if ti[3]:
        rep.add("R-FUT", mkey + " extra-bounds", "future carries additional bounds %s" % ti[3], where=exp.label())
