"""C11 — unimock wiring: named mock API, argument order, un-mocked calls reach the real function."""
from ..common import Report
from ..corpus import load, load_repo_tests, load_repo_examples
from ..docgen import load_repo_docs
from ..crossgen import load_cross
from ..deleg import strip
from ..wrules import (FnModView, TraitView, trait_methods, impl_methods, impls_of, in_macro, last_seg, callee_of, UNIMOCK_ADT)

EVAL = "unimock::private::eval"
UNMOCK = "unimock::private::Continuation::Unmock"
CONTINUE = "unimock::private::Eval::Continue"


def unimock_impl(crate, trait_def, exp):
    mine = set(id(d) for d in exp.defs)
    for i in impls_of(crate, trait_def["path"]):
        if id(i) in mine and i["self_ty"].get("t") == "adt" and i["self_ty"]["path"] == UNIMOCK_ADT:
            return i
    return None


def analyse_mock_method(im):
    """-> (mockfn type path, eval operands as param indices, unmock arm or None)"""
    from ..deleg import walk
    env = {}
    for i, p in enumerate(im["params"]):
        if p["p"] == "binding":
            env[p["hir_id"]] = i
    # `let x = <param>` re-bindings (async desugaring, async_trait)
    lets = []

    def coll(n):
        if n.get("k") == "block":
            for st in n["stmts"]:
                if st["s"] == "let" and st["pat"]["p"] == "binding" and st["init"] is not None:
                    lets.append(st)
    walk(im["body"], coll)
    changed = True
    while changed:
        changed = False
        for st in lets:
            init = strip(st["init"])
            if init["k"] == "local" and init["hir_id"] in env and st["pat"]["hir_id"] not in env:
                env[st["pat"]["hir_id"]] = env[init["hir_id"]]
                changed = True
    found = []

    def find(n):
        if n.get("k") == "match" and n.get("src") != "AwaitDesugar":
            sc = strip(n["scrut"])
            if sc["k"] == "call" and callee_of(sc).get("def") == EVAL:
                found.append(n)
    walk(im["body"], find)
    if len(found) != 1:
        return None
    e = found[0]
    scrut = strip(e["scrut"])
    c = callee_of(scrut)
    mockfn = [a for a in c.get("args", []) if a.get("t") == "adt"]

    def op(x):
        x = strip(x)
        if x["k"] == "addrof":  # unimock writes `&self` in async bodies (auto-deref'd back)
            x = strip(x["e"])
        return env.get(x.get("hir_id")) if x["k"] == "local" else None
    ops = [op(scrut["args"][0])]
    tup = strip(scrut["args"][1])
    if tup["k"] == "tup":
        ops += [op(x) for x in tup["es"]]
    else:
        ops.append(op(tup))
    unmock = None
    for arm in e.get("arms", []):
        pat = arm["pat"]
        if pat.get("p") == "tuplestruct" and pat.get("path") == CONTINUE and pat["ps"] and pat["ps"][0].get("path") == UNMOCK:
            binds = []
            tp = pat["ps"][1] if len(pat["ps"]) > 1 else {"p": "tuple", "ps": []}
            if tp.get("p") == "tuple":
                for b in tp.get("ps", []):
                    binds.append(b.get("hir_id") if b.get("p") == "binding" else None)
            elif tp.get("p") == "binding":
                binds.append(tp.get("hir_id"))
            unmock = {"binds": binds, "body": arm["body"], "env": env}
    return {"mockfn": mockfn[0]["path"] if mockfn else None, "eval_ops": ops, "unmock": unmock, "env": env}


def run(tier):
    rep = Report("C11", tier, "translation_validation")
    configs = ["unimock_test"] if tier == "quick" else ["unimock_test", "unimock"]
    programs = 0
    loaded = [(cfg, load(rep, "pos", cfg)) for cfg in configs]
    loaded += [(cfg, load_cross(rep, cfg, tier)) for cfg in configs]
    if tier == "thorough":
        loaded.append(("unimock_test", load_repo_tests(rep)))
        loaded += [("unimock_test", ld) for ld in load_repo_examples(rep)]
        loaded.append(("unimock_test", load_repo_docs(rep)))
    for cfg, ld in loaded:
        crate = ld.crate
        for exp in crate.expansions:
            key0 = exp.ident()
            if exp.mode in ("fn", "mod"):
                v = FnModView(crate, exp)
                trait = v.trait
                api = exp.attr.opts.get("mock_api") if exp.attr else None
            elif exp.mode == "trait":
                v = TraitView(crate, exp)
                trait = v.trait
                api = exp.attr.opts.get("mock_api") if exp.attr else None
            else:
                continue
            if trait is None:
                continue
            ui = unimock_impl(crate, trait, exp)
            if ui is None:
                continue
            programs += 1
            rep.count("mocked_traits")
            scope = trait["parent"]
            methods = trait_methods(crate, trait)
            ims = impl_methods(crate, ui)
            # ---- mock API naming
            if api and api is not True:
                if exp.mode == "fn":
                    st = crate.get("%s::%s" % (scope, api))
                    if st is None or st["kind"] != "Struct":
                        rep.add("R-MOCKAPI", key0 + " api-name", "mock API `%s` is not a struct next to the trait in `%s`" % (api, scope), where=exp.label())
                else:
                    md = crate.get("%s::%s" % (scope, api))
                    if md is None or md["kind"] != "Mod":
                        rep.add("R-MOCKAPI", key0 + " api-name", "mock API module `%s` does not exist next to the trait in `%s`" % (api, scope), where=exp.label())
                    else:
                        names = sorted(c["name"] for c in md.get("children", []) if c["res_kind"] == "Struct")
                        want = sorted(last_seg(m["path"]) for m in methods)
                        if not set(want) <= set(names):
                            rep.add("R-MOCKAPI", key0 + " api-members", "mock API module `%s` contains %s, expected one mock function per method %s" % (api, names, want), where=exp.label())
            by_name = {last_seg(o["path"]): o for o in getattr(v, "originals", [])}
            for m in methods:
                name = last_seg(m["path"])
                im = ims.get(name)
                mkey = "%s :: %s" % (key0, name)
                if im is None:
                    rep.add("R-UNMOCK", mkey + " missing", "Unimock impl lacks method `%s`" % name, where=exp.label())
                    continue
                rep.count("mocked_methods_checked")
                a = analyse_mock_method(im)
                if a is None:
                    rep.add("R-UNMOCK", mkey + " shape", "Unimock impl method is not `match eval::<MockFn>(self, (args..)) {..}`", where=exp.label())
                    continue
                n = len(im["params"])
                rep.sample({"method": im["path"], "mockfn": a["mockfn"], "eval_operands": a["eval_ops"], "unmock": bool(a["unmock"])})
                if a["eval_ops"] != list(range(0, n)):
                    rep.add("R-UNMOCK", mkey + " eval-order", "the mock receives parameters %s, expected %s (declared order)" % (a["eval_ops"], list(range(0, n))), where=exp.label())
                # mock fn identity = API name
                if api and api is not True:
                    want = "%s::%s" % (scope, api) if exp.mode == "fn" else "%s::%s::%s" % (scope, api, name)
                    if a["mockfn"] != want and not (a["mockfn"] or "").endswith("__Generic" + (api if exp.mode == "fn" else name)):
                        rep.add("R-MOCKAPI", mkey + " mockfn", "method is mocked through `%s`, expected `%s`" % (a["mockfn"], want), where=exp.label())
                # un-mocking
                if exp.mode == "trait":
                    expect_unmock = False
                    kind = "trait"
                else:
                    o = by_name.get(name)
                    kind = v.deps_kind(o) if o else "?"
                    expect_unmock = kind in ("generic", "nodeps")
                if bool(a["unmock"]) != expect_unmock:
                    rep.add("R-UNMOCK", mkey + " unmock-presence", "%s `%s`: un-mock arm is %s, expected %s"
                            % (kind, name, "present" if a["unmock"] else "absent", "present" if expect_unmock else "absent"), where=exp.label())
                    continue
                if not a["unmock"]:
                    continue
                body = strip(a["unmock"]["body"])
                awaited = False
                if body["k"] == "match" and body.get("src") == "AwaitDesugar":
                    awaited = True
                    sc = strip(body["scrut"])
                    body = strip(sc["args"][0]) if sc["k"] == "call" and sc["args"] else sc
                c = callee_of(body)
                o = by_name.get(name)
                if body["k"] != "call" or c.get("def") != o["path"]:
                    rep.add("R-UNMOCK", mkey + " unmock-callee", "un-mock arm calls `%s`, expected the original function `%s`" % (c.get("def"), o["path"]), where=exp.label())
                    continue
                binds = a["unmock"]["binds"]
                env = a["unmock"]["env"]
                got = []
                for x in body["args"]:
                    x = strip(x)
                    if x["k"] != "local":
                        got.append(None)
                    elif x["hir_id"] in binds:
                        got.append("t%d" % binds.index(x["hir_id"]))
                    elif x["hir_id"] in env:
                        got.append("p%d" % env[x["hir_id"]])
                    else:
                        got.append("?")
                want = (["p0"] if kind == "generic" else []) + ["t%d" % i for i in range(len(binds))]
                if got != want or len(binds) != n - 1:
                    rep.add("R-UNMOCK", mkey + " unmock-operands", "un-mock arm passes %s, expected %s (mock object as dependency, then the tuple elements in order)" % (got, want), where=exp.label())
                ga = [x for x in c.get("args", []) if x.get("t") != "region"]
                if kind == "generic" and not any(x.get("t") == "adt" and x["path"] == UNIMOCK_ADT for x in ga):
                    rep.add("R-UNMOCK", mkey + " unmock-deps", "original is not instantiated with the mock object as dependency", where=exp.label())
                if awaited != bool(o["asyncness"]):
                    rep.add("R-UNMOCK", mkey + " unmock-await", "async-ness of the un-mock call does not match the original", where=exp.label())
    rep.floor("mocked_methods_checked", 40)
    rep.coverage.update({"programs": programs, "disagreements_checked": rep.counters.get("mocked_methods_checked", 0),
                         "explanation": "type-checked HIR of every `impl Trait for unimock::Unimock` produced inside an entrait expansion (feature on): the method is `match eval::<MockFn>(self, (p1..pn))` with the parameters in declared order; MockFn is the struct named by mock_api (single fn) or `<mock_api>::<method>` (mod / trait), which exists next to the trait, one per method; an arm for Continuation::Unmock exists iff the original has generic deps or no_deps, and its body is one call of the original function (resolved DefId) with operands (self, t1..tn) resp. (t1..tn), ti being the arm's own tuple bindings by position, instantiated with Unimock as dependency; concrete-deps functions and entraited traits have no such arm.",
                         "configs": configs})
    rep.assumptions.append("unimock's own matching / answering (returns the configured answer) is unimock's contract and is not analysed")
    return rep.finish()
