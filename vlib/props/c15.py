"""C15 — misuse yields a compile-time diagnostic; the macro never panics."""
import json
import os
import re

from ..common import VERIF, Report, CheckError
from ..corpus import WIT, load, module_props
from ..facts import run_driver, module_of_file
from ..grules import fn_of, load_controls, load_gen, strip_generics, where

TABLE = os.path.join(VERIF, "rules", "c15_discharge.json")
IDENT_RE = re.compile(r'^"(r#)?[A-Za-z_][A-Za-z0-9_]*"$')
LIFETIME_RE = re.compile(r'^"\'[A-Za-z_][A-Za-z0-9_]*"$')
PANICKY = re.compile(r"^core::panicking::|^std::rt::begin_panic|^std::panicking::|::unwrap$|::expect$|::unwrap_err$|::expect_err$|"
                     r"Ident::new$|Ident::new_raw$|Lifetime::new$|parse_quote::parse$|mk_ident|::index$|::index_mut$|"
                     r"Punctuated::insert$|Vec::insert$|Vec::remove$|::swap_remove$|::split_at$|::split_off$|"
                     r"core::str::.*::parse$|proc_macro2::.*::from_str$|core::slice::.*copy_from_slice$|::unwrap_unchecked$|"
                     r"RefCell::borrow$|RefCell::borrow_mut$|core::option::expect_failed|core::result::unwrap_failed|::drain$|::split_first$")
IGNORE = re.compile(r"^core::fmt::|^core::panicking::panic_nounwind|^core::panicking::panic_cannot_unwind|^core::panicking::panic_in_cleanup")


def panic_sites(facts):
    """Every panic-capable operation in any body of the macro crate: (class key, body, call)."""
    out = []
    for b in facts["bodies"]:
        if b.get("stolen"):
            continue
        for c in b["calls"]:
            if c.get("cleanup"):
                continue
            d = strip_generics(c.get("def") or "")
            if not d or IGNORE.search(d) or not PANICKY.search(d):
                continue
            consts = [x for x in c.get("const_args", []) if x]
            gargs = list(c.get("gargs_s", []))
            if d.endswith("Ident::new") or d.endswith("Ident::new_raw"):
                lit = c.get("const_args", [None])[0]
                if lit and IDENT_RE.match(lit):
                    out.append((("literal-ok", d, lit), b, c))
                    continue
                out.append((("site", d, ("<non-constant string>",)), b, c))
                continue
            if d.endswith("Lifetime::new"):
                lit = c.get("const_args", [None])[0]
                if lit and LIFETIME_RE.match(lit):
                    out.append((("literal-ok", d, lit), b, c))
                    continue
                out.append((("site", d, ("<non-constant string>",)), b, c))
                continue
            if d.endswith("Punctuated::insert") or d.endswith("Vec::insert"):
                idx = (c.get("const_args") or [None, None])[1]
                if idx == "0_usize":
                    out.append((("index0-ok", d, idx), b, c))
                    continue
                out.append((("site", d, ("index", idx or "<non-constant>")), b, c))
                continue
            if d.startswith("core::panicking::") or d.startswith("std::rt::begin_panic"):
                msg = None
                for x in consts:
                    if x.startswith('"'):
                        msg = x.strip('"')
                if msg is None:
                    # panic_fmt: the message is the constant of the preceding Arguments::from_str call in the body
                    for c2 in b["calls"]:
                        if "Arguments" in (c2.get("def") or "") and c2["span"] == c["span"]:
                            for x in c2.get("const_args", []):
                                if x and x.startswith('"'):
                                    msg = x.strip('"')
                out.append((("site", d, ("msg", msg or "<dynamic>")), b, c))
                continue
            out.append((("site", d, tuple(gargs)), b, c))
        for a in b["asserts"]:
            if a["kind"].startswith("Resumed"):
                continue
            out.append((("site", "assert:" + a["kind"], ()), b, a))
    return out


def load_table():
    with open(TABLE) as f:
        t = json.load(f)
    idx = {}
    for s in t["sites"]:
        if "msg" in s:
            key = (s["callee"], ("msg", s["msg"]))
        elif "index" in s:
            key = (s["callee"], ("index", s["index"]))
        else:
            key = (s["callee"], tuple(s.get("args", [])))
        idx[key] = s
    return idx


ARG_TOKENS = ["Foo", "pub", "pub(crate)", ",", "=", "?", "Send", "true", "false", "ref", "dyn", "no_deps", "export", "debug",
              "mock_api", "unimock", "mockall", "delegate_by", "Self", "Borrow", "1", "\"s\"", "a::b", "()", "#", "'a", "_", "self", "crate"]
ARG_TARGETS = {
    "fn": "fn f{i}<D>(deps: &D) {{}}",
    "mod": "mod m{i} {{ pub fn g<D>(deps: &D) {{}} }}",
    "trait": "trait T{i} {{ fn g(&self); }}",
    "impl": "impl TImpl for X{i} {{ fn g<D>(deps: &D) {{}} }}",
}


def option_grammar_sweep(rep, tier):
    """Small-scope exhaustive sweep of attribute argument lists: every token sequence up to a length bound over an
    alphabet of option words, punctuation and junk, on all four targets. Whatever the macro does with it — accept or
    reject — it must not panic, and a rejection must come through the diagnostic channel (one compile, all
    diagnostics attributed by line)."""
    import itertools, shutil
    from ..common import CACHE, REPO
    maxlen = 2 if tier == "quick" else 3
    alphabet = ARG_TOKENS if tier == "thorough" else ARG_TOKENS[:22]
    seqs = [()]
    for n in range(1, maxlen + 1):
        if n == 3:
            # length 3: full product over the core words only (keeps the sweep at a few thousand lists)
            core = ["Foo", ",", "=", "?", "Send", "true", "ref", "no_deps", "mock_api", "delegate_by", "Self", "pub"]
            seqs += list(itertools.product(core, repeat=3))
        else:
            seqs += list(itertools.product(alphabet, repeat=n))
    d = os.path.join(CACHE, "gen", "c15_args_%s" % tier)
    os.makedirs(os.path.join(d, "src"), exist_ok=True)
    with open(os.path.join(d, "Cargo.toml"), "w") as f:
        f.write('[package]\nname = "wit_c15a"\nversion = "0.0.0"\nedition = "2021"\n\n[dependencies]\nentrait = { path = "%s" }\n\n[workspace]\n' % REPO)
    shutil.copy(os.path.join(REPO, "Cargo.lock"), os.path.join(d, "Cargo.lock"))
    lines = ["#![allow(dead_code, unused)]", "use entrait::*;", "pub trait TImpl<T> {}"]
    where = {}
    i = 0
    for tgt, tmpl in ARG_TARGETS.items():
        for seq in seqs:
            args = " ".join(seq)
            pre = "pub struct X%d; " % i if tgt == "impl" else ""
            lines.append("%s#[entrait(%s)] %s" % (pre, args, tmpl.format(i=i)))
            where[len(lines)] = (tgt, args)
            i += 1
    with open(os.path.join(d, "src", "lib.rs"), "w") as f:
        f.write("\n".join(lines) + "\n")
    _f, diags, wall = run_driver(d, "wit_c15a")
    rep.count("argument_lists_swept", i)
    by_line = {}
    for dg in diags:
        if dg["level"] != "error":
            continue
        for sp in dg["spans"]:
            if sp["primary"]:
                by_line.setdefault(sp["line"], []).append(dg)
    npanic = 0
    for ln, (tgt, args) in where.items():
        for dg in by_line.get(ln, []):
            if "panicked" in dg["message"] or any("panicked" in (c or "") for c in dg["children"]):
                npanic += 1
                words = sorted(set(args.split()))
                rep.add("W-PANIC", "args %s tokens {%s}" % (tgt, " ".join(words)),
                        "the macro panicked on `#[entrait(%s)]` applied to a %s: %s" % (args, tgt, "; ".join([dg["message"]] + [c for c in dg["children"] if c][:1])))
    # a panic without usable span
    for dg in diags:
        if dg["level"] == "error" and "panicked" in dg["message"] and not any(sp["primary"] and sp["line"] in where for sp in dg["spans"]):
            rep.add("W-PANIC", "args unattributed", "proc-macro panic without an attributable span: %s" % dg["message"])
    rep.count("argument_lists_rejected", sum(1 for ln in where if ln in by_line))


def run(tier):
    rep = Report("C15", tier, "other")
    option_grammar_sweep(rep, tier)
    # ---- (a) panic-site audit of the generator
    ctl = panic_sites(load_controls())
    names = set(fn_of(b["path"]).split("::")[-1] for (k, b, c) in ctl if k[0] == "site")
    for want in ("ctl_unwrap", "ctl_expect", "ctl_panic", "ctl_unreachable", "ctl_index", "ctl_time"):
        rep.require(want in names, "positive control `%s` was not recognised as a panic-capable site" % want)
        rep.count("positive_controls_flagged")
    facts, _ = load_gen()
    table = load_table()
    sites = panic_sites(facts)
    rep.count("bodies_analysed", len(facts["bodies"]))
    seen = {}
    for k, b, c in sites:
        rep.count("panic_capable_sites")
        if k[0] != "site":
            rep.count("discharged_" + k[0])
            continue
        seen.setdefault((k[1], k[2]), []).append((b, c))
    for key, occ in sorted(seen.items(), key=lambda kv: str(kv[0])):
        entry = table.get(key)
        desc = "%s %s" % (key[0], list(key[1]))
        if entry is None:
            for b, c in occ:
                rep.add("G-PANIC", "undischarged %s" % desc,
                        "panic-capable operation `%s` %s in `%s` is not covered by a reviewed discharge (rules/c15_discharge.json)"
                        % (key[0], list(key[1]), fn_of(b["path"])), where=where(b, c))
        elif len(occ) > entry["count"]:
            rep.add("G-PANIC", "more-sites %s" % desc,
                    "%d sites of `%s` %s, only %d were reviewed (%s); sites: %s"
                    % (len(occ), key[0], list(key[1]), entry["count"], entry["reason"],
                       ["%s@%s" % (fn_of(b["path"]).split("::")[-1], where(b, c)) for b, c in occ]))
        else:
            rep.count("discharged_reviewed", len(occ))
    rep.floor("panic_capable_sites", 60)
    rep.floor("argument_lists_swept", 1500)
    # ---- (b) negative witnesses: each misuse is answered by a diagnostic at the module, never a panic
    neg_dir = os.path.join(WIT, "neg")
    _f, diags, wall = run_driver(neg_dir, "wit_neg")
    errors = [d for d in diags if d["level"] == "error"]
    by_mod = {}
    for d in errors:
        for s in d["spans"]:
            if s["primary"]:
                m = module_of_file(s["file"])
                if m:
                    by_mod.setdefault(m, []).append((d, s))
    mods = sorted(os.path.splitext(f)[0] for f in os.listdir(os.path.join(neg_dir, "src")) if f.startswith("n_"))
    rep.require(len(mods) >= 45, "negative corpus shrank to %d modules" % len(mods))
    for m in mods:
        rep.count("misuse_witnesses")
        src = open(os.path.join(neg_dir, "src", m + ".rs")).read()
        expect = re.search(r"^//! expect: (.*)$", src, re.M)
        at = re.search(r"^//! at: (.*)$", src, re.M)
        got = by_mod.get(m, [])
        lines = src.split("\n")
        rep.sample({"misuse": m, "diagnostics": [d["message"][:100] for d, s in got]})
        if not got:
            rep.add("W-DIAG", "neg/%s no-diagnostic" % m, "misuse witness `%s` produced no diagnostic in its module (accepted silently?)" % m)
            continue
        for d, s in got:
            if "panicked" in d["message"] or any("panicked" in (c or "") for c in d["children"]):
                rep.add("W-PANIC", "neg/%s panic" % m, "the macro panicked on misuse witness `%s`: %s %s"
                        % (m, d["message"], d["children"][:1]), where="%s:%d" % (s["file"], s["line"]))
        if expect and not any(re.search(expect.group(1), d["message"]) for d, s in got):
            rep.add("W-DIAG", "neg/%s message" % m, "documented misuse `%s` is no longer rejected with its specific message /%s/; got %s"
                    % (m, expect.group(1), [d["message"][:120] for d, s in got]))
        elif at and expect:
            ok = False
            for d, s in got:
                if re.search(expect.group(1), d["message"]):
                    text = "\n".join(lines[s["line"] - 1:s["line_end"]])
                    if at.group(1) in text:
                        ok = True
            if not ok:
                rep.add("W-DIAG", "neg/%s span" % m, "diagnostic for `%s` is not reported at the offending tokens (`%s`)" % (m, at.group(1)))
    # no diagnostics outside the witness modules (e.g. a panic without span)
    for d in errors:
        if ("panicked" in d["message"]) and not any(s["primary"] and module_of_file(s["file"]) for s in d["spans"]):
            rep.add("W-PANIC", "neg/unattributed panic", "proc-macro panic without a module span: %s" % d["message"])
    # ---- (c) every positive witness (hand-written corpus, the mode x option cross product, the trait shapes) must expand
    #      to tokens that parse, without a panic
    from ..facts import parse_or_panic
    from ..crossgen import load_cross
    for cfg in (["plain", "unimock_test"] if tier == "quick" else ["plain", "test", "unimock", "unimock_test"]):
        corpora = [load(rep, "pos", cfg), load_cross(rep, cfg, tier)]
        if cfg == "plain":
            from ..traitgen import load_traitseq
            corpora.append(load_traitseq(rep, cfg, tier))
        for ld in corpora:
            for mod, dl in ld.failures.items():
                for d in dl:
                    if parse_or_panic(d):
                        what = "panicked" if "panicked" in (d["message"] + " ".join(c or "" for c in d["children"])) else "emitted tokens that do not parse"
                        rep.add("W-PANIC", "%s/%s %s" % (ld.name, mod, "panic" if what == "panicked" else "parse"),
                                "the macro %s while expanding witness `%s` [%s]: %s"
                                % (what, mod, cfg, "; ".join([d["message"]] + [c for c in d["children"] if c][:1])))
                        break
    # ---- (c') script-enumerated module item sequences: the macro's output must parse, and no panic
    from ..modgen import load_modseq
    load_modseq(rep, "plain", tier)
    rep.coverage.update({
        "explanation": "(a) inventory of every panic-capable operation in the MIR of entrait_macros (core::panicking::*, unwrap/expect, indexing, Punctuated/Vec::insert, Ident::new / Lifetime::new / parse_quote! / format_ident!, overflow and bounds asserts); machine-discharged: constant valid identifier/lifetime literals, insert at index 0; the rest must match the reviewed table rules/c15_discharge.json keyed by (callee, type arguments | message) with confirmed counts. (b) %d negative witnesses (documented misuses with their message and token position, unsupported item kinds, malformed option lists): one compile, every module must receive a diagnostic, none may be a proc-macro panic. (c) no pos-corpus module fails with a proc-macro panic; every script-enumerated module item sequence (vlib/modgen.py: 532 quick / 4 488 thorough modules) expands to tokens that parse, without a panic. (d) small-scope exhaustive sweep of attribute argument lists (all token sequences up to length 2 / 3 over an alphabet of option words, punctuation and junk) on fn, mod, trait and impl targets: accepted or rejected, never a panic." % len(mods),
        "obligations": rep.counters.get("panic_capable_sites", 0) + len(mods),
        "discharged": rep.counters.get("panic_capable_sites", 0) + len(mods) - len(rep.findings),
        "checker_cmd": "./check C15 quick",
        "trusted_base": ["rustc MIR", "the reviewed reasons in rules/c15_discharge.json", "syn's parser does not panic"],
    })
    return rep.finish()
