"""C10 — mock code is generated only when enabled and is test-gated unless exported (full lattice)."""
import itertools
import os
import re
import shutil

from ..common import CACHE, REPO, VERIF, Report, CheckError
from ..facts import build_with_skips
from ..model import Crate
from ..wrules import FnModView, TraitView, impls_of, is_impl_adt, UNIMOCK_ADT, last_seg

MACROS = ["entrait", "entrait_export"]
TRI = [None, True, False]


def opt(name, v):
    if v is None:
        return None
    return "%s = %s" % (name, "true" if v else "false")


def points():
    for target in ("fn", "fnc", "mod", "trait", "traitd", "traitr"):
        for macro, uni, api, mockall, export in itertools.product(MACROS, TRI, [False, True], TRI, TRI):
            if target.startswith("trait") and export is not None:
                continue  # `export` is not an option of trait inputs (rejected; C15/C17 negative corpus)
            # the requested trait visibility is not part of the property's oracle: the result must not depend on it
            for vis in ("", "pub ", "pub(crate) "):
                yield {"target": target, "macro": macro, "unimock": uni, "mock_api": api, "mockall": mockall, "export": export, "vis": vis}


def oracle(p, feature, test):
    """Transcribed from the property text (not from the macro)."""
    uni = p["unimock"] if p["unimock"] is not None else feature
    if p["target"] in ("fn", "fnc", "mod"):
        uni = uni and p["mock_api"]
    mockall = bool(p["mockall"])
    if p["export"] is not None:
        exporting = p["export"]
    else:
        exporting = p["macro"] == "entrait_export"
    visible = exporting or test
    return {"unimock": bool(uni and visible), "mockall": bool(mockall and visible), "mockable": bool(uni or mockall)}


def source(idx, p):
    opts = [o for o in (opt("unimock", p["unimock"]), "mock_api = TMock" if p["mock_api"] else None,
                        opt("mockall", p["mockall"]), opt("export", p["export"])) if o]
    if p["target"] == "fn":
        args = ", ".join([p["vis"] + "T"] + opts)
        item = "#[%s(%s)] fn f<D>(deps: &D, a: u8) -> u8 { a }" % (p["macro"], args)
    elif p["target"] == "fnc":
        # concrete dependency: the trait additionally goes through a nested entrait invocation
        args = ", ".join([p["vis"] + "T"] + opts)
        item = "pub struct App; #[%s(%s)] fn f(deps: &App, a: u8) -> u8 { a }" % (p["macro"], args)
    elif p["target"] == "mod":
        args = ", ".join([p["vis"] + "T"] + opts)
        item = "#[%s(%s)] pub mod inner { pub fn f<D>(deps: &D, a: u8) -> u8 { a } }" % (p["macro"], args)
    elif p["target"] in ("traitd", "traitr"):
        # entraited trait WITH a delegation target (static selector trait / `ref`): same oracle as a plain trait
        sel = "delegate_by = DelegateT" if p["target"] == "traitd" else "delegate_by = ref"
        args = ", ".join(["TImpl", sel] + opts)
        item = "#[%s(%s)] %strait T { fn f(&self, a: u8) -> u8; }" % (p["macro"], args, p["vis"])
    else:
        args = ", ".join(opts)
        item = "#[%s%s] %strait T { fn f(&self, a: u8) -> u8; }" % (p["macro"], "(%s)" % args if args else "", p["vis"])
    return "#[cfg(not(skip_p%d))] pub mod p%d { use entrait::*; %s }" % (idx, idx, item)


def generate(dirname, pts):
    os.makedirs(os.path.join(dirname, "src"), exist_ok=True)
    stub = os.path.join(VERIF, "witness", "stubs", "mockall")
    with open(os.path.join(dirname, "Cargo.toml"), "w") as f:
        f.write('[package]\nname = "wit_c10"\nversion = "0.0.0"\nedition = "2021"\n\n[features]\nunimock = ["entrait/unimock"]\n\n'
                '[dependencies]\nentrait = { path = "%s" }\nmockall = { path = "%s" }\n\n[workspace]\n' % (REPO, stub))
    shutil.copy(os.path.join(VERIF, "witness", "pos", "Cargo.lock"), os.path.join(dirname, "Cargo.lock"))
    lines = ["#![allow(dead_code, unused_variables, unused_imports, non_snake_case)]"]
    for i, p in enumerate(pts):
        lines.append(source(i, p))
    with open(os.path.join(dirname, "src", "lib.rs"), "w") as f:
        f.write("\n".join(lines) + "\n")


def run(tier):
    rep = Report("C10", tier, "exploration")
    allpts = list(points())
    # the feature-on / non-test configuration is where "gated unless exported" is observable at all with the
    # feature's implicit default, so the quick tier has it too
    configs = [("plain", False, False), ("unimock", True, False), ("unimock_test", True, True)] if tier == "quick" else \
        [("plain", False, False), ("test", False, True), ("unimock", True, False), ("unimock_test", True, True)]
    evaluations = 0
    distinct = set()
    for cfgname, feature, test in configs:
        # without the cargo feature the path ::entrait::__unimock does not exist: points that switch unimock
        # on explicitly are (expected) compile errors there and are left to the negative side
        pts = [p for p in allpts if feature or not (p["unimock"] is True and (p["mock_api"] or p["target"].startswith("trait")))]
        dirname = os.path.join(CACHE, "gen", "c10_%s" % ("f" if feature else "nf"))
        generate(dirname, pts)
        where = {}
        with open(os.path.join(dirname, "src", "lib.rs")) as fh:
            for ln, line in enumerate(fh.read().split("\n"), 1):
                m = re.match(r"#\[cfg\(not\(skip_p(\d+)\)\)\]", line)
                if m:
                    where[ln] = int(m.group(1))

        def attribute(span, where=where):
            i = where.get(span["line"])
            return "p%d" % i if i is not None else None
        facts, failures, wall = build_with_skips(dirname, "wit_c10", features=("unimock",) if feature else (),
                                                 cfgs=("test",) if test else (), attribute=attribute, max_rounds=5)
        crate = Crate(facts, dirname)
        by_mod = {}
        for exp in crate.expansions:
            m = re.search(r"^crate::p(\d+)", exp.module or "")
            if m:
                by_mod[int(m.group(1))] = exp
        for i, p in enumerate(pts):
            evaluations += 1
            label = "%s %s unimock=%s mock_api=%s mockall=%s export=%s vis=%s" % (
                p["target"], p["macro"], p["unimock"], p["mock_api"], p["mockall"], p["export"], p["vis"].strip() or "private")
            key = "[%s] %s" % (cfgname, label)
            if "p%d" % i in failures:
                d = failures["p%d" % i][0]
                rep.add("W-LATTICE", key + " compile", "lattice point does not compile: %s %s" % (d.get("code") or "", d["message"][:160]))
                continue
            exp = by_mod.get(i)
            if exp is None:
                raise CheckError("no expansion for lattice point %d" % i)
            if p["target"].startswith("trait"):
                v = TraitView(crate, exp)
                trait = v.trait
            else:
                v = FnModView(crate, exp)
                trait = v.trait
            if trait is None:
                rep.add("W-LATTICE", key + " trait", "no trait generated")
                continue
            mine = set(id(d) for d in exp.defs)
            impls = [x for x in impls_of(crate, trait["path"]) if id(x) in mine]
            got_uni = any(x["self_ty"].get("t") == "adt" and x["self_ty"]["path"] == UNIMOCK_ADT for x in impls)
            got_mockall = any(d["kind"] == "Struct" and last_seg(d["path"]) == "MockT" for d in exp.defs)
            want = oracle(p, feature, test)
            distinct.add((cfgname, label))
            if len(rep.samples) < 10 and i % 29 == 0:
                rep.sample({"config": cfgname, "point": label, "unimock_impl": got_uni, "mockall_marker": got_mockall, "expected": want})
            if got_uni != want["unimock"]:
                rep.add("W-LATTICE", key + " unimock", "unimock implementation is %s, expected %s" %
                        ("present" if got_uni else "absent", "present" if want["unimock"] else "absent"))
            if got_mockall != want["mockall"]:
                rep.add("W-LATTICE", key + " mockall", "mockall derivation is %s, expected %s" %
                        ("attached" if got_mockall else "absent", "attached" if want["mockall"] else "absent"))
            if p["target"] in ("fn", "mod"):
                plain = [x for x in impls if not (x["self_ty"].get("t") == "adt" and x["self_ty"]["path"] == UNIMOCK_ADT)]
                if plain:
                    is_impl = is_impl_adt(plain[0]["self_ty"])
                    if is_impl != want["mockable"]:
                        rep.add("W-LATTICE", key + " self-type", "impl target is %s but mock support is %s" %
                                ("Impl<T>" if is_impl else "T", "requested" if want["mockable"] else "not requested"))
        rep.count("points_" + cfgname, len(pts))
    rep.coverage.update({
        "evaluations": evaluations,
        "distinct_nontrivial": len(distinct),
        "rule": "all points of {entrait, entrait_export} x unimock{absent,true,false} x mock_api{absent,present} x mockall{absent,true,false} x export{absent,true,false} x {fn with generic deps, fn with concrete deps, mod} plus the same without `export` for trait, trait with a static delegation target and trait with a `ref` delegation target, each with the requested trait visibility private / pub / pub(crate) (1 296 points; the oracle does not depend on the visibility), in %d of the 4 configurations {feature} x {cfg(test)}; points that name unimock explicitly without the cargo feature reference a path that does not exist and are excluded there; every point is non-trivial (a distinct option set); observed per point: is there an `impl Trait for unimock::Unimock` (tcx impls), is the stub-mockall marker `MockT` defined, is the impl target T or Impl<T>" % len(configs),
        "exhaustive": True,
        "explanation": "oracle transcribed from the property: unimock enabled = explicit value, else cargo feature; for fn/mod additionally mock_api given; mockall enabled = option true; exporting = explicit export value, else macro is entrait_export; a mock derivation is present in a configuration iff enabled and (exporting or cfg(test))",
    })
    return rep.finish()
