"""C09 — an entraited trait definition is preserved."""
import os

from ..common import Report
from ..corpus import WIT
from ..expq import Group, Tok, flat, items_of, text_of
from ..twin import Walker, load_pair

OWNED_ATTR_WORDS = ("unimock", "automock", "mockall")


def split_sig(item):
    """(attrs texts, is_async, tokens before `->`, return-type tokens, tokens from `where`, body text or ';')."""
    rest = list(item.rest)
    body = None
    if rest and isinstance(rest[-1], Group) and rest[-1].open == "{":
        body = text_of([rest[-1]])
        rest = rest[:-1]
    while rest and isinstance(rest[-1], Tok) and rest[-1].text == ";":
        rest = rest[:-1]
    words = list(rest)
    is_async = any(isinstance(t, Tok) and t.text == "async" for t in words[:4])
    words = [t for i, t in enumerate(words) if not (isinstance(t, Tok) and t.text == "async" and i < 4)]
    # top-level `->`
    arrow = None
    for i in range(len(words) - 1):
        if isinstance(words[i], Tok) and words[i].text == "-" and isinstance(words[i + 1], Tok) and words[i + 1].text == ">":
            arrow = i
            break
    where = None
    for i, t in enumerate(words):
        if isinstance(t, Tok) and t.text == "where":
            where = i
            break
    end = where if where is not None else len(words)
    if arrow is not None and arrow < end:
        before = words[:arrow]
        ret = words[arrow + 2:end]
    else:
        before = words[:end]
        ret = None
    wh = words[end:]
    return (item.attr_texts(), is_async, flat(before), flat(ret) if ret is not None else None, flat(wh), body)


def expected_future(ret, send):
    r = ret if ret is not None else ["(", ")"]
    out = ["impl", ":", ":", "core", ":", ":", "future", ":", ":", "Future", "<", "Output", "="] + r + [">"]
    if send:
        out += ["+", ":", ":", "core", ":", ":", "marker", ":", ":", "Send"]
    return out


def compare_trait(rep, pair, key, cfgname):
    t, r = pair.t, pair.r
    rep.count("traits_compared")
    # attributes: the user's attributes must all survive, in order; additions must be mock derivations
    ta, ra = t.attr_texts(), r.attr_texts()
    i = 0
    extra = []
    for a in ra:
        if i < len(ta) and a == ta[i]:
            i += 1
        else:
            extra.append(a)
    if i < len(ta):
        rep.add("W-TRAIT", key + " trait-attrs", "attribute(s) of the trait were dropped: %s" % ta[i:i + 3],
                data={"twin": ta, "real": ra})
    for a in extra:
        if not any(w in a for w in OWNED_ATTR_WORDS):
            rep.add("W-TRAIT", key + " trait-attrs-added", "an attribute the user did not write was added to the trait: %s" % a[:120])
    # header: visibility, unsafe, name, generics, supertraits, where clause
    if flat(t.header()) != flat(r.header()):
        rep.add("W-TRAIT", key + " trait-header", "trait header changed: `%s` -> `%s`" % (text_of(t.header()), text_of(r.header())))
    ti = items_of(t.body_group().items)
    ri = items_of(r.body_group().items)
    tn = [x.kind_and_name() for x in ti]
    rn = [x.kind_and_name() for x in ri]
    if tn != rn:
        missing = [x for x in tn if x not in rn]
        rep.add("W-TRAIT", key + " trait-items", "trait items changed: %s -> %s (missing: %s)" % (tn, rn, missing))
    if getattr(pair.attr, "async_trait", False):
        rep.count("async_trait_traits_header_only")
        return
    send = not pair.attr.opts.get("?Send")
    rmap = {x.kind_and_name(): x for x in ri}
    for x in ti:
        kn = x.kind_and_name()
        y = rmap.get(kn)
        if y is None:
            continue
        rep.count("trait_items_compared")
        ikey = "%s :: %s %s" % (key, kn[0], kn[1])
        if kn[0] != "fn":
            if x.text() != y.text():
                rep.add("W-TRAIT", ikey + " item", "trait item changed: `%s` -> `%s`" % (x.text()[:160], y.text()[:160]))
            continue
        xa, xasync, xbefore, xret, xwhere, xbody = split_sig(x)
        ya, yasync, ybefore, yret, ywhere, ybody = split_sig(y)
        if xa != ya:
            rep.add("W-TRAIT", ikey + " attrs", "method attributes changed: %s -> %s" % (xa, ya))
        if xbefore != ybefore or xwhere != ywhere:
            rep.add("W-TRAIT", ikey + " sig", "method signature changed: `%s %s` -> `%s %s`"
                    % (" ".join(xbefore), " ".join(xwhere), " ".join(ybefore), " ".join(ywhere)))
        if xbody != ybody:
            rep.add("W-TRAIT", ikey + " body", "default body changed: %s -> %s" % (str(xbody)[:100], str(ybody)[:100]))
        if xasync:
            want = expected_future(xret, send)
            if yasync or yret != want:
                rep.add("W-TRAIT", ikey + " async-rewrite", "`async fn` was not rewritten to the documented form: got `%s%s`, expected `-> %s`"
                        % ("async " if yasync else "", "-> " + " ".join(yret or []), " ".join(want)))
        elif yasync or xret != yret:
            rep.add("W-TRAIT", ikey + " ret", "return type changed: `%s` -> `%s`" % (" ".join(xret or []), " ".join(yret or [])))


def run(tier):
    rep = Report("C09", tier, "translation_validation")
    crate_dir = os.path.join(WIT, "pos")
    configs = [("plain", (), ())] if tier == "quick" else [("plain", (), ()), ("test", (), ("test",))]
    from ..traitgen import generate as traitseq_generate
    crates = [(crate_dir, "wit_pos", cfgname, feats, cfgs) for cfgname, feats, cfgs in configs]
    # script-enumerated traits (vlib/traitgen.py): header shapes x selectors x method shapes
    crates.append((traitseq_generate(tier)[0], "wit_traitseq", "plain", (), ()))
    for cdir, cname, cfgname, feats, cfgs in crates:
        R, T, attrs = load_pair(rep, cdir, cname, feats, cfgs)
        rmods = {it.kind_and_name()[1]: it for it in R if it.kind_and_name()[0] == "mod"}
        silent = Report("C09", tier, "other")  # C02's findings are not C09's: walk with a scratch report
        for t in T:
            k, n = t.kind_and_name()
            if k == "mod" and attrs.get(n, []) is None:
                continue  # `//! twin: skip`
            if k != "mod" or t.body_group() is None or n not in rmods or rmods[n].body_group() is None:
                continue
            w = Walker(silent)
            w.walk(items_of(t.body_group().items), items_of(rmods[n].body_group().items), [n], attrs.get(n, []))
            for p in w.pairs:
                if p.attr is not None and p.kind == "trait":
                    key = "%s trait %s" % ("::".join(p.module), p.name)
                    compare_trait(rep, p, key, cfgname)
                    rep.sample({"trait": key, "config": cfgname, "attrs": p.r.attr_texts()[:4], "header": text_of(p.r.header())[:160]})
        # a trait the walker could not even pair is a C09 finding as well
        for f in silent.findings:
            if " trait " in f.key and f.key.endswith(" original"):
                rep.add("W-TRAIT", f.key, f.msg)
    rep.floor("traits_compared", 50)
    rep.floor("trait_items_compared", 50)
    rep.coverage.update({
        "programs": rep.counters.get("traits_compared", 0),
        "disagreements_checked": rep.counters.get("trait_items_compared", 0),
        "explanation": "twin diff restricted to entraited traits: the trait item of the real expansion vs the trait as written (twin). Compared structurally on token trees: attribute list (the user's attributes must be a subsequence; additions must be mock derivations), header tokens (visibility, unsafe, name, generics, supertraits, where clause), item list (kind+name, in order), and per item attributes, signature, default body; the one documented rewrite `async fn m(..) -> R` => `fn m(..) -> impl ::core::future::Future<Output = R> [+ ::core::marker::Send]` is normalised. Traits under async_trait are compared on header/attributes/item names only (async_trait rewrites the items).",
        "configs": [c[0] for c in configs],
    })
    return rep.finish()
