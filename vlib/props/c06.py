"""C06 — entraited traits: Impl<T> forwards every method to T (Self / ref / Borrow)."""
from ..common import Report
from ..corpus import load, load_repo_tests, load_repo_examples
from ..docgen import load_repo_docs
from ..crossgen import load_cross
from ..traitgen import load_traitseq
from ..common import CheckError
from ..wrules import check_trait_forwarding, check_trait_predicates, trait_methods, last_seg


def run(tier):
    rep = Report("C06", tier, "translation_validation")
    configs = ["plain", "unimock_test"] if tier == "quick" else ["plain", "test", "unimock", "unimock_test"]
    programs = 0
    loaded = [(cfg, load(rep, "pos", cfg)) for cfg in configs]
    loaded += [(cfg, load_cross(rep, cfg, tier)) for cfg in configs]
    # script-enumerated traits: header shapes x selectors x method shapes (vlib/traitgen.py)
    loaded.append(("plain", load_traitseq(rep, "plain", tier)))
    if tier == "thorough":
        loaded.append(("unimock_test", load_repo_tests(rep)))
        loaded += [("unimock_test", ld) for ld in load_repo_examples(rep)]
        loaded.append(("unimock_test", load_repo_docs(rep)))
    for cfg, ld in loaded:
        for exp in ld.crate.expansions:
            if exp.mode == "trait" and not (exp.attr and exp.attr.positional):
                v = check_trait_forwarding(rep, ld.crate, exp, cfg)
                check_trait_predicates(rep, ld.crate, exp, cfg)
                programs += 1
                wants = getattr(ld.crate, "traitseq_wants", None)
                if wants is not None and v is not None and getattr(v, "trait", None) is not None:
                    i = int(last_seg(exp.module)[1:])
                    have = [last_seg(m["path"]) for m in trait_methods(ld.crate, v.trait)]
                    if have != wants[i]:
                        raise CheckError("traitgen: generator expects methods %s for %s but rustc's item tree says %s" % (wants[i], exp.module, have))
                    rep.count("trait_sequences_checked")
    rep.floor("generated_methods_checked", 40)
    rep.floor("impls_compared", 20)
    rep.floor("trait_sequences_checked", 400)
    rep.coverage.update({"programs": programs,
                         "disagreements_checked": rep.counters.get("generated_methods_checked", 0),
                         "explanation": "R-DELEG (adapter modes) + R-PRED over every trait-input expansion without a delegation target. Corpora: hand-written witnesses, the mode x option cross product, and script-enumerated traits (vlib/traitgen.py): 9 header shapes (visibility, generics incl. const-before-type, supertraits, where clause, unsafe) x selectors default / ref / Borrow x 22 method shapes (named and elided borrows, typed receiver, wildcard and raw-identifier parameters, parameter named like the method, attributes, cfg'd-off, unsafe, where Self: Sized, dyn / fn-pointer arguments, generic / const-generic / impl-Trait / RPITIT / async methods), every method alone and every ordered pair adjacent; dyn-incompatible methods only with the default selector.",
                         "configs": configs})
    return rep.finish()
