"""C06 — entraited traits: Impl<T> forwards every method to T (Self / ref / Borrow)."""
from ..common import Report
from ..corpus import load, load_repo_tests, load_repo_examples
from ..docgen import load_repo_docs
from ..crossgen import load_cross
from ..wrules import check_trait_forwarding, check_trait_predicates


def run(tier):
    rep = Report("C06", tier, "translation_validation")
    configs = ["plain", "unimock_test"] if tier == "quick" else ["plain", "test", "unimock", "unimock_test"]
    programs = 0
    loaded = [(cfg, load(rep, "pos", cfg)) for cfg in configs]
    loaded += [(cfg, load_cross(rep, cfg, tier)) for cfg in configs]
    if tier == "thorough":
        loaded.append(("unimock_test", load_repo_tests(rep)))
        loaded += [("unimock_test", ld) for ld in load_repo_examples(rep)]
        loaded.append(("unimock_test", load_repo_docs(rep)))
    for cfg, ld in loaded:
        for exp in ld.crate.expansions:
            if exp.mode == "trait" and not (exp.attr and exp.attr.positional):
                check_trait_forwarding(rep, ld.crate, exp, cfg)
                check_trait_predicates(rep, ld.crate, exp, cfg)
                programs += 1
    rep.floor("generated_methods_checked", 40)
    rep.floor("impls_compared", 20)
    rep.coverage.update({"programs": programs,
                         "disagreements_checked": rep.counters.get("generated_methods_checked", 0),
                         "explanation": "R-DELEG (adapter modes) + R-PRED over every trait-input expansion without a delegation target",
                         "configs": configs})
    return rep.finish()
