"""C02 — append-only: the annotated fn / mod / impl items are emitted unchanged."""
import os

from ..common import Report
from ..corpus import WIT, module_props
from ..twin import Walker, load_pair


def placement_rules(rep, w):
    """Where generated items may sit relative to the original."""
    for p in w.pairs:
        if p.attr is None:
            continue
        mpath = "::".join(p.module)
        key = "%s %s %s" % (mpath, p.kind, p.name)
        gen_kinds = [(g.kind_and_name()) for g in p.generated]
        if p.kind == "fn":
            rep.count("entraited_fns")
            if ("trait", p.attr.trait_name) not in gen_kinds or not any(k == "impl" for k, n in gen_kinds):
                rep.add("W-TWIN", key + " generated-after", "trait `%s` and its impl do not follow the function `%s` (found after it: %s)"
                        % (p.attr.trait_name, p.name, gen_kinds))
        elif p.kind == "mod":
            rep.count("entraited_mods")
            inner = getattr(p, "inner_generated", [])
            ik = [g.kind_and_name() for g in inner]
            if not any(k == "trait" for k, n in ik) or not any(k == "impl" for k, n in ik):
                rep.add("W-TWIN", key + " generated-inside", "trait and impl generated for module `%s` are not at the end of the module (tail: %s)"
                        % (p.name, ik))
            if not any(k == "use" for k, n in gen_kinds):
                rep.add("W-TWIN", key + " use-after", "no `use` item follows module `%s` (after it: %s)" % (p.name, gen_kinds))
        elif p.kind == "impl":
            rep.count("entraited_impls")
            if not any(k == "impl" for k, n in gen_kinds):
                rep.add("W-TWIN", key + " generated-beside", "no generated trait impl follows the inherent impl (after it: %s)" % gen_kinds)


def run(tier):
    rep = Report("C02", tier, "translation_validation")
    crate_dir = os.path.join(WIT, "pos")
    configs = [("plain", (), ())] if tier == "quick" else [("plain", (), ()), ("unimock_test", ("unimock",), ("test",))]
    total = 0
    # type-check level: witness modules that speak for C02 must compile (e.g. the const assertions of c02_macro_fragments)
    from ..corpus import load
    load(rep, "pos", "plain")
    from ..modgen import generate as modseq_generate
    modseq_dir = modseq_generate(tier)[0]
    crates = [(crate_dir, "wit_pos", cfgname, feats, cfgs) for cfgname, feats, cfgs in configs]
    # script-enumerated module item sequences (vlib/modgen.py): every item of every sequence re-emitted unchanged
    crates.append((modseq_dir, "wit_modseq", "plain", (), ()))
    for cdir, cname, cfgname, feats, cfgs in crates:
        R, T, attrs = load_pair(rep, cdir, cname, feats, cfgs)
        rmods = {it.kind_and_name()[1]: it for it in R if it.kind_and_name()[0] == "mod"}
        nmods = 0
        for t in T:
            k, n = t.kind_and_name()
            if k == "mod" and attrs.get(n, []) is None:
                continue  # `//! twin: skip`
            if k != "mod" or t.body_group() is None:
                continue
            r = rmods.get(n)
            if r is None or r.body_group() is None:
                rep.add("W-TWIN", "module %s" % n, "witness module `%s` is missing from the expansion" % n)
                continue
            if "compile_error" in " ".join(r.words()[:0]) :
                continue
            w = Walker(rep)
            from ..expq import items_of
            w.walk(items_of(t.body_group().items), items_of(r.body_group().items), [n], attrs.get(n, []))
            placement_rules(rep, w)
            total += w.compared
            nmods += 1
            if len(rep.samples) < 8:
                for p in w.pairs[:2]:
                    rep.sample({"module": "::".join(p.module), "item": "%s %s" % (p.kind, p.name), "entraited": p.attr.text if p.attr else None,
                                "generated_after": [g.kind_and_name() for g in p.generated]})
        rep.count("modules_walked", nmods)
        rep.count("items_compared", total)
    rep.floor("items_compared", 300)
    rep.floor("entraited_fns", 100)
    rep.floor("entraited_mods", 15)
    rep.floor("entraited_impls", 8)
    rep.coverage.update({
        "programs": rep.counters.get("modules_walked", 0),
        "disagreements_checked": total,
        "explanation": "twin diff over the whole positive corpus: the crate is expanded as written and with every #[entrait…] attribute replaced by a marker item; token trees of both `-Zunpretty=expanded` outputs are split into items per module. Every twin item must occur token-identical and in order in the real expansion; an entraited fn must be re-emitted identically (attributes, visibility, qualifiers, signature, body tokens) with trait+impl directly after it; an entraited module keeps attributes/header, its items are a token-identical prefix of the real module's items, generated trait+impl are at the end inside, a `use` follows; an entraited impl block's items are token-identical and in order inside an inherent impl whose header is the original minus `Trait for`, attributes minus async_trait, with the generated trait impl beside it.",
        "configs": [c[0] for c in configs],
    })
    rep.assumptions += ["rustc's pretty printer is a function of the token stream (same printer on both sides)",
                        "span preservation and whitespace are not compared"]
    return rep.finish()
