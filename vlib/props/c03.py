"""C03 — every supported signature expands to compiling code with the same call type (bounded)."""
from ..common import Report
from ..corpus import load, load_repo_tests, load_repo_examples
from ..docgen import load_repo_docs
from ..crossgen import load_cross
from ..model import erase_regions_str, subst, ty_s
from ..wrules import FnModView, ImplBlockView, trait_methods, impl_methods, last_seg, check_fnmod_predicates, is_mock_impl


def self_param():
    return {"t": "param", "name": "Self", "index": 0}


def compare_sig(rep, key, exp, orig, tm, kind, dp):
    """Generated trait method vs original function, as functions of (receiver, arguments...)."""
    rep.count("signatures_compared")
    oi = orig["sig"]["inputs"]
    ti = tm["sig"]["inputs"]
    mapping = {dp: self_param()} if dp else {}
    exp_inputs = [ty_s(subst(t, mapping)) for t in oi]
    got_inputs = [ty_s(t) for t in ti]
    if kind == "nodeps":
        want = ["&Self"] + exp_inputs
    elif kind == "concrete":
        first = oi[0]
        recv = "&Self" if first.get("t") == "ref" else "Self"
        want = [recv] + exp_inputs[1:]
    else:
        want = exp_inputs
    if got_inputs != want:
        rep.add("R-SIG", key + " inputs", "trait method takes (%s), the original function (receiver substituted) takes (%s)"
                % (", ".join(got_inputs), ", ".join(want)), where=exp.label())
    if not orig["asyncness"]:
        to, oo = tm["sig"]["output"], orig["sig"]["output"]
        if to.get("rpitit") or (oo.get("t") == "alias" and oo.get("kind") == "opaque"):
            # `-> impl Trait`: the function's opaque type vs the trait method's return-position impl Trait are
            # compared by their item bounds (lifetime names erased)
            sa = sorted(erase_regions_str(c["s"]) for c in tm.get("output_bounds", []))
            sb = sorted(erase_regions_str(c["s"]) for c in orig.get("output_bounds", []))
            if sa != sb or not (to.get("rpitit") and oo.get("kind") == "opaque"):
                rep.add("R-SIG", key + " output", "trait method returns `impl` with bounds %s, the original with bounds %s" % (sa, sb), where=exp.label())
        else:
            go = ty_s(to)
            wo = ty_s(subst(oo, mapping))
            if go != wo:
                rep.add("R-SIG", key + " output", "trait method returns `%s`, the original returns `%s`" % (go, wo), where=exp.label())
    # lifetime structure: same number of late-bound regions (+1 for the inserted `&self` of no_deps)
    ob = orig["sig"]["bound_vars"] + (1 if kind == "nodeps" else 0)
    tb = tm["sig"]["bound_vars"]
    if orig["asyncness"]:
        pass  # the opaque future captures regions differently; the coercion witnesses cover async
    elif ob != tb:
        rep.add("R-SIG", key + " lifetimes", "trait method has %d late-bound lifetimes, the original %d — lifetime relations changed (%s vs %s)"
                % (tb, ob, tm["sig"]["s"], orig["sig"]["s"]), where=exp.label())
    if tm["sig"]["safety"] != orig["sig"]["safety"] or tm["sig"]["abi"] != orig["sig"]["abi"]:
        rep.add("R-SIG", key + " qualifiers", "unsafe/extern qualifiers differ: %s %s vs %s %s"
                % (tm["sig"]["safety"], tm["sig"]["abi"], orig["sig"]["safety"], orig["sig"]["abi"]), where=exp.label())
    # every non-deps type/const parameter of the function is a parameter of the trait xor of the method
    fn_params = [g for g in orig["generics"]["own"] if g["kind"] != "lifetime" and g["name"] != dp and not g["name"].startswith("impl ")]
    return fn_params


# ---- script-enumerated signature matrix -------------------------------------------------------------

DEPS = [
    ("gref", "<D{G}>", "deps: &D", ""),                    # named generic, by reference
    ("gval", "<D: Clone{G}>", "deps: D", ""),              # named generic, by value
    ("gbound", "<D: Dep{G}>", "deps: &D", ""),             # inline bound
    ("gwhere", "<D{G}>", "deps: &D", "D: Dep"),            # where-clause bound
    ("iref", "<{G0}>", "deps: &impl Dep", ""),             # impl Trait
    ("conc", "<{G0}>", "deps: &App", ""),                  # concrete
    ("nodeps", "<{G0}>", "", ""),                          # no_deps
]
PARAMS = [
    ("p0", []),
    ("p1", [("a", "u8")]),
    ("p2", [("a", "u8"), ("s", "&str")]),
    ("p3", [("s", "&str"), ("v", "&mut Vec<u8>"), ("t", "String")]),
]
GENERICS = [
    ("g0", "", [], ""),
    ("gt", "T: Clone + Send", [("g", "T")], ""),
    ("glt", "'x", [("x", "&'x [u8]")], ""),
    ("gconst", "const N: usize", [("arr", "[u8; N]")], ""),
    ("gtw", "T", [("g", "T")], "T: Clone + Send"),
    ("gct", "const N: usize, T: Clone + Send", [("arr", "[u8; N]"), ("g", "T")], ""),
]
RETS = [("runit", "", "()"), ("rowned", "u64", "0"), ("rborrow", None, None)]
QUALS = ["", "async ", "unsafe ", "pub(crate) ", "async unsafe ", "const ", "const unsafe ", "unsafe extern \"C\" ", "pub extern \"C\" "]


def matrix_cases():
    i = 0
    for dk, gtmpl, dparam, dwhere in DEPS:
        for pk, params in PARAMS:
            for gk, gdecl, gparams, gwhere in GENERICS:
                for rk, rty, rexpr in RETS:
                    for q in QUALS:
                        allp = list(params) + list(gparams)
                        if q.startswith("const") and (pk == "p3" or gk in ("gt", "gtw", "gct") or dk == "gval"):
                            continue  # values with destructors cannot be dropped in a const fn
                        if rk == "rborrow":
                            if gk == "glt":
                                rty, rexpr = "&'x [u8]", "x"
                            else:
                                continue
                        # generics list: lifetimes first, then deps, then the rest
                        lts = [gdecl] if gdecl.startswith("'") else []
                        rest = [gdecl] if gdecl and not gdecl.startswith("'") else []
                        inner = gtmpl
                        if "{G}" in inner:
                            core = inner.strip("<>").replace("{G}", "")
                            parts = lts + [core] + rest
                        else:
                            parts = lts + rest
                        gens = "<" + ", ".join(parts) + ">" if parts else ""
                        plist = ", ".join(([dparam] if dparam else []) + ["%s: %s" % p for p in allp])
                        wh = ", ".join(x for x in (dwhere, gwhere) if x)
                        attr = "#[entrait(Tr%s)]" % (", no_deps" if dk == "nodeps" else "")
                        body = rexpr if rexpr not in (None, "()") else ""
                        sig = "%sfn f%d%s(%s)%s%s { %s }" % (q, i, gens, plist, " -> %s" % rty if rty else "", " where " + wh if wh else "", body)
                        yield i, (dk, pk, gk, rk, q.strip() or "plain"), "#[cfg(not(skip_m%d))] pub mod m%d { use super::*; %s %s }" % (i, i, attr, sig)
                        i += 1


MATRIX_HEADER = """#![allow(dead_code, unused_variables, unused_mut, non_snake_case)]
use entrait::*;
pub trait Dep {}
#[derive(Clone)]
pub struct App;
impl Dep for App {}
impl Dep for Impl<App> {}
"""


def run_matrix(rep, tier):
    import os, re, shutil
    from ..common import CACHE, REPO
    from ..facts import build_with_skips
    from ..model import Crate
    from ..wrules import check_fnmod_delegation
    cases = list(matrix_cases())
    if tier == "quick":
        cases = [c for k, c in enumerate(cases) if k % 6 == 0]
    CH = 400
    for ci in range(0, len(cases), CH):
        part = cases[ci:ci + CH]
        d = os.path.join(CACHE, "gen", "c03_matrix_%s_%d" % (tier, ci // CH))
        os.makedirs(os.path.join(d, "src"), exist_ok=True)
        with open(os.path.join(d, "Cargo.toml"), "w") as f:
            f.write('[package]\nname = "wit_c03m"\nversion = "0.0.0"\nedition = "2021"\n\n[dependencies]\nentrait = { path = "%s" }\n\n[workspace]\n' % REPO)
        shutil.copy(os.path.join(REPO, "Cargo.lock"), os.path.join(d, "Cargo.lock"))
        lines = MATRIX_HEADER.rstrip("\n").split("\n")
        where = {}
        for idx, key, src in part:
            lines.append(src)
            where[len(lines)] = idx
        with open(os.path.join(d, "src", "lib.rs"), "w") as f:
            f.write("\n".join(lines) + "\n")

        def attribute(span, where=where):
            i = where.get(span["line"])
            return "m%d" % i if i is not None else None
        facts, failures, wall = build_with_skips(d, "wit_c03m", attribute=attribute, max_rounds=5)
        crate = Crate(facts, d)
        keys = {idx: key for idx, key, src in part}
        for idx, key, src in part:
            rep.count("matrix_signatures")
            if "m%d" % idx in failures:
                dg = failures["m%d" % idx][0]
                rep.add("W-MATRIX", "matrix %s compile" % "/".join(key),
                        "signature class %s does not expand to compiling code: %s %s — e.g. `%s`"
                        % ("/".join(key), dg.get("code") or "", dg["message"][:140], re.sub(r"^.*?use super::\*; ", "", src)[:160]))
        for exp in crate.expansions:
            m = re.search(r"::m(\d+)$", exp.module or "")
            if not m or exp.mode != "fn":
                continue
            key = keys.get(int(m.group(1)))
            v = FnModView(crate, exp)
            if v.trait is None or not v.originals:
                continue
            o = v.originals[0]
            tms = trait_methods(crate, v.trait)
            before = len(rep.findings)
            if tms:
                compare_sig(rep, "matrix %s" % "/".join(key), exp, o, tms[0], v.deps_kind(o), v.deps_param(o))
            check_fnmod_delegation(rep, crate, exp, "plain")
            for f in rep.findings[before:]:
                if not f.key.startswith("matrix "):
                    f.key = "matrix %s %s" % ("/".join(key), f.key.split(" :: ")[-1])


def run(tier):
    rep = Report("C03", tier, "translation_validation")
    run_matrix(rep, tier)
    configs = ["plain", "unimock_test"] if tier == "quick" else ["plain", "test", "unimock", "unimock_test"]
    programs = 0
    loaded = [(cfg, load(rep, "pos", cfg)) for cfg in configs]
    loaded += [(cfg, load_cross(rep, cfg, tier)) for cfg in configs]
    if tier == "thorough":
        loaded.append(("unimock_test", load_repo_tests(rep)))
        loaded += [("unimock_test", ld) for ld in load_repo_examples(rep)]
        loaded.append(("unimock_test", load_repo_docs(rep)))
    for cfg, ld in loaded:
        crate = ld.crate
        for exp in crate.expansions:
            if exp.mode not in ("fn", "mod"):
                continue
            v = FnModView(crate, exp)
            if v.trait is None:
                continue
            programs += 1
            tms = {last_seg(m["path"]): m for m in trait_methods(crate, v.trait)}
            tparams = [g["name"] for g in v.trait["generics"]["own"] if g["name"] != "Self" and g["kind"] != "lifetime"]
            all_fn_params = []
            for o in v.originals:
                name = last_seg(o["path"])
                tm = tms.get(name)
                if tm is None:
                    continue
                key = "%s :: %s" % (exp.ident(), name)
                fps = compare_sig(rep, key, exp, o, tm, v.deps_kind(o), v.deps_param(o))
                mparams = [g["name"] for g in tm["generics"]["own"] if g["kind"] != "lifetime"]
                for g in fps:
                    in_trait = g["name"] in tparams
                    in_method = g["name"] in mparams
                    if in_trait == in_method:
                        rep.add("R-PARTITION", key + " generic " + g["kind"],
                                "%s parameter `%s` is %s" % (g["kind"], g["name"], "declared on both the trait and the method" if in_trait else "lost"),
                                where=exp.label())
                all_fn_params += [g["name"] for g in fps]
                # the generated impl methods have the same signature shape as the trait method (rustc enforces);
            # lifted where-predicates survive (shared with C04)
            check_fnmod_predicates(rep, crate, exp, cfg, rule="R-PRED")
    # R-PRED findings about deps bounds belong to C04; keep only the lifted-predicate findings here
    rep.findings = [f for f in rep.findings if not (f.rule == "R-PRED")]
    rep.floor("signatures_compared", 200)
    rep.floor("matrix_signatures", 150 if tier == "quick" else 900)
    rep.coverage.update({"programs": programs, "disagreements_checked": rep.counters.get("signatures_compared", 0),
                         "explanation": "bounded matrix. (0) script-enumerated cross product {deps: named generic by ref / by value / inline bound / where bound / impl Trait / concrete / no_deps} x {0..3 further parameters incl. &str, &mut Vec, String} x {no generics, type generic inline / where, lifetime generic, const generic} x {unit / owned / borrowed return} x {plain, async, unsafe, pub(crate)} (quick: every 6th of the full product): each must compile and satisfy the signature rule and R-DELEG; (1) every witness module compiles, including borrow checking (c03_matrix: deps as named generic / impl Trait / concrete / none, by-ref / by-value, 0-3 further parameters, type/lifetime/const generics with inline and where bounds, sync/async, unsafe / extern \"C\", returns borrowing from deps / an argument / neither), each with a type-identity witness that coerces the function and the trait method to one explicitly written `for<'a,..> fn(..) -> ..` pointer type (async: both futures unify with one Output); (2) over every fn/mod expansion of the corpus: fn_sig of the trait method == fn_sig of the original with the deps parameter replaced by the receiver (input and output types as resolved by rustc, number of late-bound lifetimes, unsafe/ABI); (3) each non-deps type/const generic parameter is on the trait xor on the method; lifted where-predicates are on the impl or on the method.",
                         "configs": configs})
    rep.assumptions.append("totality over the whole signature grammar is not claimed: there is no decidable abstraction of `rustc accepts this`")
    return rep.finish()
