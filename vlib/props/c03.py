"""C03 — every supported signature expands to compiling code with the same call type (bounded)."""
from ..common import Report
from ..corpus import load, load_repo_tests
from ..model import subst, ty_s
from ..wrules import FnModView, ImplBlockView, trait_methods, impl_methods, last_seg, check_fnmod_predicates, is_mock_impl


def self_param():
    return {"t": "param", "name": "Self", "index": 0}


def compare_sig(rep, key, exp, orig, tm, kind, dp):
    """Generated trait method vs original function, as functions of (receiver, arguments...)."""
    rep.count("signatures_compared")
    oi = orig["sig"]["inputs"]
    ti = tm["sig"]["inputs"]
    mapping = {dp: self_param()} if dp else {}
    exp_inputs = [ty_s(subst(t, mapping)) for t in oi]
    got_inputs = [ty_s(t) for t in ti]
    if kind == "nodeps":
        want = ["&Self"] + exp_inputs
    elif kind == "concrete":
        first = oi[0]
        recv = "&Self" if first.get("t") == "ref" else "Self"
        want = [recv] + exp_inputs[1:]
    else:
        want = exp_inputs
    if got_inputs != want:
        rep.add("R-SIG", key + " inputs", "trait method takes (%s), the original function (receiver substituted) takes (%s)"
                % (", ".join(got_inputs), ", ".join(want)), where=exp.label())
    if not orig["asyncness"]:
        go = ty_s(tm["sig"]["output"])
        wo = ty_s(subst(orig["sig"]["output"], mapping))
        if go != wo:
            rep.add("R-SIG", key + " output", "trait method returns `%s`, the original returns `%s`" % (go, wo), where=exp.label())
    # lifetime structure: same number of late-bound regions (+1 for the inserted `&self` of no_deps)
    ob = orig["sig"]["bound_vars"] + (1 if kind == "nodeps" else 0)
    tb = tm["sig"]["bound_vars"]
    if orig["asyncness"]:
        pass  # the opaque future captures regions differently; the coercion witnesses cover async
    elif ob != tb:
        rep.add("R-SIG", key + " lifetimes", "trait method has %d late-bound lifetimes, the original %d — lifetime relations changed (%s vs %s)"
                % (tb, ob, tm["sig"]["s"], orig["sig"]["s"]), where=exp.label())
    if tm["sig"]["safety"] != orig["sig"]["safety"] or tm["sig"]["abi"] != orig["sig"]["abi"]:
        rep.add("R-SIG", key + " qualifiers", "unsafe/extern qualifiers differ: %s %s vs %s %s"
                % (tm["sig"]["safety"], tm["sig"]["abi"], orig["sig"]["safety"], orig["sig"]["abi"]), where=exp.label())
    # every non-deps type/const parameter of the function is a parameter of the trait xor of the method
    fn_params = [g for g in orig["generics"]["own"] if g["kind"] != "lifetime" and g["name"] != dp and not g["name"].startswith("impl ")]
    return fn_params


def run(tier):
    rep = Report("C03", tier, "translation_validation")
    configs = ["plain", "unimock_test"] if tier == "quick" else ["plain", "test", "unimock", "unimock_test"]
    programs = 0
    loaded = [(cfg, load(rep, "pos", cfg)) for cfg in configs]
    if tier == "thorough":
        loaded.append(("unimock_test", load_repo_tests(rep)))
    for cfg, ld in loaded:
        crate = ld.crate
        for exp in crate.expansions:
            if exp.mode not in ("fn", "mod"):
                continue
            v = FnModView(crate, exp)
            if v.trait is None:
                continue
            programs += 1
            tms = {last_seg(m["path"]): m for m in trait_methods(crate, v.trait)}
            tparams = [g["name"] for g in v.trait["generics"]["own"] if g["name"] != "Self" and g["kind"] != "lifetime"]
            all_fn_params = []
            for o in v.originals:
                name = last_seg(o["path"])
                tm = tms.get(name)
                if tm is None:
                    continue
                key = "%s :: %s" % (exp.ident(), name)
                fps = compare_sig(rep, key, exp, o, tm, v.deps_kind(o), v.deps_param(o))
                mparams = [g["name"] for g in tm["generics"]["own"] if g["kind"] != "lifetime"]
                for g in fps:
                    in_trait = g["name"] in tparams
                    in_method = g["name"] in mparams
                    if in_trait == in_method:
                        rep.add("R-PARTITION", key + " generic " + g["kind"],
                                "%s parameter `%s` is %s" % (g["kind"], g["name"], "declared on both the trait and the method" if in_trait else "lost"),
                                where=exp.label())
                all_fn_params += [g["name"] for g in fps]
                # the generated impl methods have the same signature shape as the trait method (rustc enforces);
            # lifted where-predicates survive (shared with C04)
            check_fnmod_predicates(rep, crate, exp, cfg, rule="R-PRED")
    # R-PRED findings about deps bounds belong to C04; keep only the lifted-predicate findings here
    rep.findings = [f for f in rep.findings if not (f.rule == "R-PRED")]
    rep.floor("signatures_compared", 200)
    rep.coverage.update({"programs": programs, "disagreements_checked": rep.counters.get("signatures_compared", 0),
                         "explanation": "bounded matrix. (1) every witness module compiles, including borrow checking (c03_matrix: deps as named generic / impl Trait / concrete / none, by-ref / by-value, 0-3 further parameters, type/lifetime/const generics with inline and where bounds, sync/async, unsafe / extern \"C\", returns borrowing from deps / an argument / neither), each with a type-identity witness that coerces the function and the trait method to one explicitly written `for<'a,..> fn(..) -> ..` pointer type (async: both futures unify with one Output); (2) over every fn/mod expansion of the corpus: fn_sig of the trait method == fn_sig of the original with the deps parameter replaced by the receiver (input and output types as resolved by rustc, number of late-bound lifetimes, unsafe/ABI); (3) each non-deps type/const generic parameter is on the trait xor on the method; lifted where-predicates are on the impl or on the method.",
                         "configs": configs})
    rep.assumptions.append("totality over the whole signature grammar is not claimed: there is no decidable abstraction of `rustc accepts this`")
    return rep.finish()
