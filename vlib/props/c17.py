"""C17 — options mean what the table says; macro variants are option shorthands."""
import itertools
import os
import re
import shutil

from ..common import CACHE, REPO, VERIF, Report, CheckError
from ..expq import expand, items_of, parse_tts, tokenize, flat
from ..facts import run_driver

ITEMS = {
    "fn": "fn f<D>(deps: &D, a: u8, b: u8) -> u8 { a - b }",
    "fn_async": "async fn f<D>(deps: &D, a: u8, b: u8) -> u8 { a - b }",
    "mod": "pub mod inner { pub fn f<D>(deps: &D, a: u8) -> u8 { a } pub async fn g<D>(deps: &D, a: u8) -> u8 { a } }",
    "trait": "pub trait Tr { fn f(&self, a: u8) -> u8; async fn g(&self, a: u8) -> u8; }",
    "impl": "pub trait TrImpl<T>: 'static { fn f(&self, __impl: &Impl<T>, a: u8) -> u8; } pub struct X; IMPL_ATTR impl TrImpl for X { fn f<D>(deps: &D, a: u8) -> u8 { a } }",
    "impl_static": "pub trait TrImpl<T>: 'static { fn f(__impl: &Impl<T>, a: u8) -> u8; } pub struct X; IMPL_ATTR impl TrImpl for X { fn f<D>(deps: &D, a: u8) -> u8 { a } }",
}


def attr(macro, name, opts):
    args = ([name] if name else []) + list(opts)
    return "#[%s(%s)]" % (macro, ", ".join(args)) if args else "#[%s]" % macro


def pairs(feature, maxsub):
    """(description, target item key, attribute A, attribute B) — A and B are claimed to expand identically."""
    out = []
    fnopts = ["no_deps", "export", "mock_api = TMock", "mockall", "?Send"] + (["unimock"] if feature else [])
    # explicit values in the order permutations as well (a check that only sees the options parsed so far is order-dependent)
    valued = ["unimock = false", "mockall = false", "export = false", "mock_api = TMock", "no_deps = false"]
    boolopts = ["no_deps", "export", "mockall"] + (["unimock"] if feature else [])
    for tgt, name in (("fn", "T"), ("fn_async", "T"), ("mod", "pub T")):
        for o in boolopts:
            out.append(("bare `%s` == `%s = true`" % (o, o), tgt, attr("entrait", name, [o]), attr("entrait", name, [o + " = true"])))
        for o in ("no_deps", "export", "mockall") + (("unimock",) if not feature else ()):
            out.append(("`%s = false` == omitted" % o, tgt, attr("entrait", name, [o + " = false"]), attr("entrait", name, [])))
        # option order
        for k in range(2, maxsub + 1):
            for sub in itertools.combinations(fnopts, k):
                base = attr("entrait", name, sub)
                for perm in itertools.permutations(sub):
                    if perm != sub:
                        out.append(("order %s == %s" % (list(perm), list(sub)), tgt, attr("entrait", name, perm), base))
        for sub in itertools.combinations(valued, 2):
            base = attr("entrait", name, sub)
            out.append(("order %s == %s" % ([sub[1], sub[0]], list(sub)), tgt, attr("entrait", name, (sub[1], sub[0])), base))
        # macro variants
        for sub in [()] + [(o,) for o in fnopts if o != "export"] + [("mock_api = TMock", "mockall")]:
            out.append(("entrait_export(%s) == entrait(%s, export)" % (", ".join(sub), ", ".join(sub)), tgt,
                        attr("entrait_export", name, sub), attr("entrait", name, list(sub) + ["export"])))
        for ev in ("export = false", "export = true", "export"):
            out.append(("entrait_export(.., %s) == entrait(.., %s)" % (ev, ev), tgt,
                        attr("entrait_export", name, ["mockall", ev]), attr("entrait", name, ["mockall", ev])))
            # the two variant defaults (export, unimock) are independent of each other
            out.append(("entrait_export(mock_api, %s) == entrait(mock_api, %s)" % (ev, ev), tgt,
                        attr("entrait_export", name, ["mock_api = TMock", ev]), attr("entrait", name, ["mock_api = TMock", ev])))
        for uv in ("unimock = false",) + (("unimock = true", "unimock") if feature else ()):
            out.append(("entrait_export(%s, mockall) == entrait(%s, mockall, export)" % (uv, uv), tgt,
                        attr("entrait_export", name, [uv, "mockall", "mock_api = TMock"]),
                        attr("entrait", name, [uv, "mockall", "mock_api = TMock", "export"])))
        if feature:
            for sub in [(), ("mock_api = TMock",), ("mock_api = TMock", "export"), ("no_deps", "mock_api = TMock")]:
                out.append(("[feature] entrait(%s) == entrait(%s, unimock)" % (", ".join(sub), ", ".join(sub)), tgt,
                            attr("entrait", name, sub), attr("entrait", name, list(sub) + ["unimock"])))
    # `debug` (prints, does not change the tokens) and the impl-block spellings
    out.append(("`debug = false` == omitted", "fn", attr("entrait", "T", ["debug = false"]), attr("entrait", "T", [])))
    out.append(("`debug = false` == omitted", "mod", attr("entrait", "pub T", ["debug = false"]), attr("entrait", "pub T", [])))
    out.append(("`debug = false` == omitted", "trait", attr("entrait", None, ["debug = false"]), attr("entrait", None, [])))
    out.append(("impl block: `debug = false` == omitted", "impl_static", "#[entrait(debug = false)]", "#[entrait]"))
    out.append(("impl block: `ref` == `dyn`", "impl", "#[entrait(ref)]", "#[entrait(dyn)]"))
    topts = ["mock_api = TMock", "mockall", "?Send", "delegate_by = ref"] + (["unimock"] if feature else [])
    for o in ["mockall"] + (["unimock"] if feature else []):
        out.append(("bare `%s` == `%s = true`" % (o, o), "trait", attr("entrait", None, [o]), attr("entrait", None, [o + " = true"])))
    out.append(("`mockall = false` == omitted", "trait", attr("entrait", None, ["mockall = false"]), attr("entrait", None, [])))
    out.append(("`delegate_by = Self` == omitted", "trait", attr("entrait", None, ["delegate_by = Self"]), attr("entrait", None, [])))
    out.append(("bare `delegate_by` == omitted", "trait", attr("entrait", None, ["delegate_by"]), attr("entrait", None, [])))
    for k in range(2, maxsub + 1):
        for sub in itertools.combinations(topts, k):
            if "delegate_by = ref" in sub and False:
                continue
            base = attr("entrait", None, sub)
            for perm in itertools.permutations(sub):
                if perm != sub:
                    out.append(("order %s == %s" % (list(perm), list(sub)), "trait", attr("entrait", None, perm), base))
    for sub in itertools.combinations(["unimock = false", "mockall = false", "mock_api = TMock", "delegate_by = ref"], 2):
        out.append(("order %s == %s" % ([sub[1], sub[0]], list(sub)), "trait", attr("entrait", None, (sub[1], sub[0])), attr("entrait", None, sub)))
    for sub in [(), ("mockall",), ("mock_api = TMock",)]:
        # `export` is not an option of trait inputs: the shorthand is only observable through the gate
        pass
    if feature:
        for sub in [(), ("mock_api = TMock",), ("mockall",)]:
            out.append(("[feature] entrait(%s) == entrait(%s, unimock)" % (", ".join(sub), ", ".join(sub)), "trait",
                        attr("entrait", None, sub), attr("entrait", None, list(sub) + ["unimock"])))
    return out


def gen_pairs_crate(dirname, ps):
    os.makedirs(os.path.join(dirname, "src"), exist_ok=True)
    stub = os.path.join(VERIF, "witness", "stubs", "mockall")
    with open(os.path.join(dirname, "Cargo.toml"), "w") as f:
        f.write('[package]\nname = "wit_c17"\nversion = "0.0.0"\nedition = "2021"\n\n[features]\nunimock = ["entrait/unimock"]\n\n'
                '[dependencies]\nentrait = { path = "%s" }\nmockall = { path = "%s" }\n\n[workspace]\n' % (REPO, stub))
    shutil.copy(os.path.join(VERIF, "witness", "pos", "Cargo.lock"), os.path.join(dirname, "Cargo.lock"))
    lines = ["#![allow(dead_code, unused_variables, unused_imports, non_snake_case)]"]
    for i, (desc, tgt, a, b) in enumerate(ps):
        item = ITEMS[tgt]
        if "no_deps" in a:
            item = item.replace("<D>(deps: &D, ", "(").replace("<D>(deps: &D)", "()")
        if "IMPL_ATTR" in item:
            lines.append("pub mod pa%d { use entrait::*; %s }" % (i, item.replace("IMPL_ATTR", a)))
            lines.append("pub mod pb%d { use entrait::*; %s }" % (i, item.replace("IMPL_ATTR", b)))
            continue
        lines.append("pub mod pa%d { use entrait::*; %s %s }" % (i, a, item))
        lines.append("pub mod pb%d { use entrait::*; %s %s }" % (i, b, item))
    with open(os.path.join(dirname, "src", "lib.rs"), "w") as f:
        f.write("\n".join(lines) + "\n")


def doc_table():
    """Option -> set of targets, parsed from the documentation table of the facade crate."""
    out = {}
    with open(os.path.join(REPO, "src", "lib.rs")) as f:
        for line in f:
            m = re.match(r"^///\s*\|\s*`([^`]+)`\s*\|[^|]*\|\s*([^|]*)\|", line)
            if m and ("`fn`" in m.group(2) or "`trait`" in m.group(2) or "`mod`" in m.group(2)):
                out[m.group(1)] = set(re.findall(r"`(\w+)`", m.group(2)))
    return out


ACCEPT_ITEMS = {
    "fn": "fn f<D>(deps: &D) {}",
    "mod": "pub mod inner { pub fn f<D>(deps: &D) {} }",
    "trait": "pub trait Tr { fn f(&self); }",
    "impl": "pub struct X; impl TImpl for X { fn f<D>(deps: &D) {} }",
}
OPTION_SPELLINGS = {
    "no_deps": "no_deps", "export": "export", "mock_api": "mock_api = TMock", "unimock": "unimock = false",
    "mockall": "mockall = false", "delegate_by": "delegate_by = Self", "?Send": "?Send",
}


def acceptance(rep):
    table = doc_table()
    rep.require(len(table) >= 7 and "no_deps" in table and "?Send" in table,
                "could not read the option table from src/lib.rs (found %s)" % sorted(table))
    dirname = os.path.join(CACHE, "gen", "c17_accept")
    os.makedirs(os.path.join(dirname, "src"), exist_ok=True)
    with open(os.path.join(dirname, "Cargo.toml"), "w") as f:
        f.write('[package]\nname = "wit_c17a"\nversion = "0.0.0"\nedition = "2021"\n\n[dependencies]\nentrait = { path = "%s" }\n\n[workspace]\n' % REPO)
    shutil.copy(os.path.join(REPO, "Cargo.lock"), os.path.join(dirname, "Cargo.lock"))
    cases = []
    lines = ["#![allow(dead_code, unused_variables, unused_imports)]"]
    for o in sorted(OPTION_SPELLINGS):
        for tgt in ("fn", "mod", "trait", "impl"):
            sp = OPTION_SPELLINGS[o]
            if tgt in ("fn", "mod"):
                a = "#[entrait(%sT, %s)]" % ("pub " if tgt == "mod" else "", sp)
            else:
                a = "#[entrait(%s)]" % sp
            item = ACCEPT_ITEMS[tgt]
            if o == "no_deps" and tgt in ("fn", "mod"):
                item = item.replace("<D>(deps: &D)", "()")
            if tgt == "impl":
                src = "pub mod q%d { use entrait::*; pub trait TImpl<T> { fn f(__impl: &Impl<T>); } pub struct X; %s impl TImpl for X { fn f<D>(deps: &D) {} } }" % (len(cases), a)
            else:
                src = "pub mod q%d { use entrait::*; %s %s }" % (len(cases), a, item)
            lines.append(src)
            cases.append((o, tgt, 1 + len(lines) - 1))
    with open(os.path.join(dirname, "src", "lib.rs"), "w") as f:
        f.write("\n".join(lines) + "\n")
    _f, diags, wall = run_driver(dirname, "wit_c17a")
    rejected = {}
    for d in diags:
        if d["level"] != "error":
            continue
        for s in d["spans"]:
            if s["primary"]:
                rejected.setdefault(s["line"], []).append(d)
    src_lines = lines
    for (o, tgt, line) in cases:
        rep.count("acceptance_cases")
        ds = [d for d in rejected.get(line, []) if re.search(r"Unsupported option|Unkonwn entrait option|expected", d["message"])]
        is_rejected = bool(ds)
        documented = tgt in table.get(o, set())
        if documented and is_rejected:
            rep.add("W-ACCEPT", "reject %s@%s" % (o, tgt), "option `%s` is documented for `%s` but is rejected: %s" % (o, tgt, ds[0]["message"]))
        if not documented and not is_rejected:
            rep.add("W-ACCEPT", "accept %s@%s" % (o, tgt), "option `%s` is accepted on `%s` although the option table documents it for %s only"
                    % (o, tgt, "+".join(sorted(table.get(o, [])))))
        if not documented and is_rejected:
            # the diagnostic must sit at the option
            text = src_lines[line - 1]
            spelling = OPTION_SPELLINGS[o]
            start = text.find(spelling, text.find("#[entrait("))
            col_ok = any(sp["primary"] and start <= sp["col"] - 1 < start + len(spelling) for d in ds for sp in d["spans"])
            if not col_ok:
                rep.add("W-ACCEPT", "span %s@%s" % (o, tgt), "rejection of `%s` on `%s` is not reported at the option token" % (o, tgt))
    return table


def run(tier):
    rep = Report("C17", tier, "exploration")
    maxsub = 2 if tier == "quick" else 3
    evaluations = 0
    distinct = set()
    table = acceptance(rep)
    # ---- G-OPTVAL (universal, MIR of the macro crate): boolean options are read through their value, never through a
    # presence predicate — the structural reason why `opt = false` equals omitting `opt` for every input
    from ..grules import load_gen, load_controls, optval_findings
    ctl, _n = optval_findings(load_controls())
    ctl_names = set(k.split()[0].split("::")[-1] for _r, k, _m, _w in ctl)
    rep.require({"ctl_opt_presence", "ctl_opt_absence"} <= ctl_names, "positive controls of G-OPTVAL were not flagged: %s" % sorted(ctl_names))
    rep.require("ctl_opt_value_ok" not in ctl_names, "negative control of G-OPTVAL was flagged")
    facts, _wall = load_gen()
    found, nreads = optval_findings(facts)
    rep.count("boolean_option_reads", nreads)
    for rule, key, msg, wh in found:
        rep.add(rule, key, msg, where=wh)
    configs = [("plain", (), ()), ("unimock_test", ("unimock",), ("test",))] if tier == "quick" else \
        [("plain", (), ()), ("test", (), ("test",)), ("unimock", ("unimock",), ()), ("unimock_test", ("unimock",), ("test",))]
    for cfgname, feats, cfgs in configs:
        feature = bool(feats)
        ps = pairs(feature, maxsub)
        dirname = os.path.join(CACHE, "gen", "c17_%s" % ("f" if feature else "nf"))
        gen_pairs_crate(dirname, ps)
        try:
            text = expand(dirname, "wit_c17", features=feats, cfgs=cfgs)
        except CheckError as e:
            # every member of every pair is an argument list the macro accepts (or rejects with compile_error!,
            # which still pretty-prints): no expansion at all means some member expanded to tokens that do not parse
            first = re.search(r"^error[^\n]*", str(e), re.M)
            rep.add("W-EQUIV", "[%s] pair corpus expansion" % cfgname,
                    "the pair corpus does not expand at all in configuration %s (the macro's output for some accepted argument list does not parse): %s"
                    % (cfgname, first.group(0) if first else str(e)[:200]))
            continue
        items = items_of(parse_tts(tokenize(text)))
        mods = {}
        for it in items:
            k, n = it.kind_and_name()
            if k == "mod" and n and it.body_group() is not None:
                mods[n] = flat(it.body_group().items)
        for i, (desc, tgt, a, b) in enumerate(ps):
            evaluations += 1
            ta, tb = mods.get("pa%d" % i), mods.get("pb%d" % i)
            if ta is None or tb is None:
                raise CheckError("pair module %d missing from the expansion" % i)
            distinct.add((cfgname, tgt, a, b))
            if len(rep.samples) < 10 and i % 41 == 0:
                rep.sample({"config": cfgname, "claim": desc, "target": tgt, "a": a, "b": b, "tokens": len(ta)})
            if "compile_error" in ta or "compile_error" in tb:
                rep.add("W-EQUIV", "[%s] %s %s rejected" % (cfgname, tgt, desc), "one side of the pair is rejected by the macro: `%s` vs `%s`" % (a, b))
                continue
            if ta != tb:
                j = next((k for k, (x, y) in enumerate(zip(ta, tb)) if x != y), min(len(ta), len(tb)))
                rep.add("W-EQUIV", "[%s] %s %s" % ("feature" if feature else "no-feature", tgt.replace("_async", ""), re.sub(r"\[.*?\] == \[.*?\]", "option order", desc)),
                        "`%s` and `%s` expand differently (%s, %s): …%s… vs …%s…"
                        % (a, b, cfgname, desc, " ".join(ta[max(0, j - 6):j + 8]), " ".join(tb[max(0, j - 6):j + 8])))
        rep.count("pairs_" + cfgname, len(ps))
    rep.coverage.update({
        "evaluations": evaluations + rep.counters.get("acceptance_cases", 0),
        "distinct_nontrivial": len(distinct),
        "rule": "G-OPTVAL: in the MIR of entrait_macros no `is_some` / `is_none` (presence predicate) is applied to an `Option<SpanOpt<bool>>` / `Option<SpanOpt<FutureSend>>`; every read goes through the value with its default (positive and negative controls in witness/gctl). Metamorphic pairs of attribute argument lists claimed equivalent by the property, applied to one representative fn, async fn, module and trait: bare option vs `= true`; `= false` vs omitted; every permutation of every option subset of size 2..%d vs its canonical order; entrait_export(args) vs entrait(args, export) and with explicit export values; with the cargo feature entrait(args) vs entrait(args, unimock). The token streams of the two sibling modules in `-Zunpretty=expanded` output must be equal. Acceptance: every option x {fn, mod, trait, impl} against the option table parsed from the doc comment in src/lib.rs (writer's and reader's tables must agree); rejections must be reported at the option." % maxsub,
        "exhaustive": True,
        "explanation": "the cross-feature clause (feature-on entrait(args) == feature-off entrait(args, unimock)) cannot be observed as one expansion because ::entrait::__unimock does not exist without the feature; it is decided as the same-feature pair entrait(args) == entrait(args, unimock) under the feature plus C10's lattice",
        "doc_table": {k: sorted(v) for k, v in table.items()},
    })
    return rep.finish()
