"""C14 — static delegation is zero-cost (structural clause: no trait objects, no boxing, no allocation
site, no dynamic call in any generated body or generated signature of a static-delegation expansion)."""
import re

from ..common import Report
from ..corpus import load, load_repo_tests, load_repo_examples
from ..docgen import load_repo_docs
from ..crossgen import load_cross
from ..deleg import all_calls, walk, real_adjusts, callee_of
from ..wrules import (is_mock_impl, FnModView, TraitView, ImplBlockView, trait_methods, impl_methods, in_macro, last_seg,
                      entrait_depth)

HEAPY = re.compile(r"\bdyn\b|alloc::boxed::Box|alloc::rc::Rc|alloc::sync::Arc|alloc::vec::Vec|alloc::string::String")


def norm(s):
    s = re.sub(r" \+ '\w+", "", s)
    s = re.sub(r"&'\w+ ", "&", s)
    return s.replace("(dyn", "dyn").replace(")>", ">")


def heapy_types(strs):
    return set(norm(s) for s in strs if HEAPY.search(s))


def sig_types(fn):
    return list(fn["sig"]["inputs_s"]) + [fn["sig"]["output_s"]]


def check_body(rep, key, exp, im, allowed_types, cfg):
    rep.count("bodies_checked")
    if not im.get("has_body"):
        return
    # 1. callees
    for c in all_calls(im["body"]):
        ce = callee_of(c)
        r = ce.get("resolved")
        d = ce.get("def") or ""
        rd = r.get("def") if isinstance(r, dict) else ""
        rep.count("calls_checked")
        if d.startswith("alloc::") or rd.startswith("alloc::") or "<alloc::" in rd:
            rep.add("R-ZERO", key + " alloc-call", "generated body calls into alloc: `%s`" % (rd or d), where=exp.label())
        if isinstance(r, dict) and r["kind"].startswith("Virtual"):
            rep.add("R-ZERO", key + " virtual-call", "generated body performs a dynamic call of `%s`" % d, where=exp.label())
        sa = [a for a in ce.get("args", []) if a.get("t") == "dyn"]
        if sa:
            rep.add("R-ZERO", key + " dyn-callee", "generated body calls `%s` on a trait object" % d, where=exp.label())
    # 1b. nothing is called besides the delegate and the two zero-cost adapters (`.await`'s IntoFuture on
    #     the delegate's future, and the field accessor <Impl<T> as AsRef<T>>::as_ref): a clone / conversion
    #     of the application or of an argument is a cost the direct call does not have
    delegates = 0
    for c in all_calls(im["body"]):
        ce = callee_of(c)
        d = ce.get("def") or ""
        r = ce.get("resolved")
        rd = r.get("def") if isinstance(r, dict) else ""
        if d == "core::future::into_future::IntoFuture::into_future":
            continue
        if d == "core::convert::AsRef::as_ref":
            a0 = (ce.get("args") or [{}])[0]
            if a0.get("t") == "adt" and a0.get("path") == "implementation::Impl":
                continue
            rep.add("R-ZERO", key + " extra-call", "generated body converts through `AsRef` on `%s`, which is not entrait's `Impl<T>` accessor" % a0.get("path", a0.get("t")),
                    where=exp.label())
            continue
        if d.startswith(("crate::", "<crate::")) or rd.startswith(("crate::", "<crate::")):
            delegates += 1
            continue
        rep.add("R-ZERO", key + " extra-call", "generated body calls `%s`: neither the delegate nor a zero-cost adapter" % (rd or d), where=exp.label())
    if delegates != 1:
        rep.add("R-ZERO", key + " delegate-count", "generated body contains %d calls into the user's crate, expected exactly one (the delegate)" % delegates,
                where=exp.label())
    # 2. unsizing coercions

    def adj(n):
        for a in real_adjusts(n):
            if a["kind"] == "Pointer(Unsize)":
                rep.add("R-ZERO", key + " unsize", "generated body coerces to `%s`" % a["target"], where=exp.label())
    walk(im["body"], adj)
    # 3. heap / dyn types that are not the user's own
    extra = heapy_types(im.get("body_tys", [])) - allowed_types
    # types of sub-expressions are compared by containment: a user type may appear inside a tuple etc.
    # (a user type written behind a reference — `deps: &dyn Trait` — also appears without the `&`, e.g.
    # as the Self type in the name of an async body's future)
    cores = set(allowed_types) | set(re.sub(r"^(&(mut )?)+", "", a) for a in allowed_types)
    extra = set(t for t in extra if not any(a in t or t in a for a in cores))
    if extra:
        rep.add("R-ZERO", key + " heap-type", "generated body mentions heap / trait-object types that are not in the user's signature: %s"
                % sorted(extra), where=exp.label())


HEAP_LITERALS = {"Box", "Pin", "Rc", "Arc", "Vec", "String", "alloc", "boxed", "__alloc", "pin", "rc", "sync", "vec", "std"}
DYN_OK_OWNERS = ("gen_delegation_method", "push_impl_t_bounds")


def generator_rule(rep):
    """G (universal): the generator cannot emit a heap / boxing identifier at all, and `dyn` only from the
    emitters of the dynamic-delegation forms. A token that no emitter can produce appears in no expansion."""
    from ..grules import load_gen, fn_of, strip_generics, where
    from .c19 import literal_inventory
    facts, _ = load_gen()
    inv, _seps = literal_inventory(facts)
    n = 0
    for owner, lits in sorted(inv.items()):
        for lit, kind, wh in lits:
            n += 1
            if lit in HEAP_LITERALS:
                rep.add("G-ZERO", "%s emits %s" % (owner, lit),
                        "`%s` can emit the identifier `%s`: generated code could box / allocate (no emitter may produce it today)" % (owner, lit), where=wh)
            if lit == "dyn" and not any(o in owner for o in DYN_OK_OWNERS):
                rep.add("G-ZERO", "%s emits dyn" % owner,
                        "`%s` can emit `dyn` although it is not one of the dynamic-delegation emitters" % owner, where=wh)
    rep.count("generator_literals_scanned", n)
    ndyn = sum(1 for lits in inv.values() for l, _, _ in lits if l == "dyn")
    rep.count("dyn_literal_sites", ndyn)


def run(tier):
    rep = Report("C14", tier, "translation_validation")
    generator_rule(rep)
    configs = ["plain", "unimock_test"] if tier == "quick" else ["plain", "test", "unimock", "unimock_test"]
    programs = 0
    loaded = [(cfg, load(rep, "pos", cfg)) for cfg in configs]
    loaded += [(cfg, load_cross(rep, cfg, tier)) for cfg in configs]
    if tier == "thorough":
        loaded.append(("unimock_test", load_repo_tests(rep)))
        loaded += [("unimock_test", ld) for ld in load_repo_examples(rep)]
        loaded.append(("unimock_test", load_repo_docs(rep)))
    for cfg, ld in loaded:
        crate = ld.crate
        for exp in crate.expansions:
            key0 = exp.ident()
            if any(in_macro(d, ("async_trait",)) for d in exp.defs):
                continue  # dynamic dispatch / boxing was requested
            if exp.mode in ("fn", "mod"):
                v = FnModView(crate, exp)
                if v.trait is None:
                    continue
                programs += 1
                by_name = {last_seg(o["path"]): o for o in v.originals}
                tms = {last_seg(m["path"]): m for m in trait_methods(crate, v.trait)}
                for name, tm in tms.items():
                    o = by_name.get(name)
                    if o is None:
                        continue
                    allowed = heapy_types(sig_types(o))
                    bad = heapy_types(sig_types(tm)) - allowed
                    bad = set(t for t in bad if not any(a in t for a in allowed))
                    rep.count("signatures_checked")
                    if bad:
                        rep.add("R-ZERO", "%s :: %s trait-sig" % (key0, name), "generated trait method signature introduces %s" % sorted(bad), where=exp.label())
                    if tm["sig"]["output"].get("t") == "adt" and tm["sig"]["output"]["path"] == "core::pin::Pin" and \
                            not o["sig"]["output_s"].startswith("core::pin::Pin"):
                        rep.add("R-ZERO", "%s :: %s boxed-future" % (key0, name), "trait method returns a pinned box", where=exp.label())
                for imp in v.impls:
                    if is_mock_impl(imp):
                        continue
                    for name, im in impl_methods(crate, imp).items():
                        o = by_name.get(name)
                        allowed = heapy_types(sig_types(o)) if o else set()
                        check_body(rep, "%s :: %s" % (key0, name), exp, im, allowed, cfg)
            elif exp.mode == "trait":
                v = TraitView(crate, exp)
                if v.trait is None or v.kind in ("asref", "borrow") or len(v.impls) != 1:
                    continue
                programs += 1
                tms = {last_seg(m["path"]): m for m in trait_methods(crate, v.trait)}
                for name, im in impl_methods(crate, v.impls[0]).items():
                    tm = tms.get(name)
                    allowed = heapy_types(sig_types(tm)) if tm else set()
                    check_body(rep, "%s :: %s" % (key0, name), exp, im, allowed, cfg)
                if v.impl_trait is not None:
                    for m in trait_methods(crate, v.impl_trait):
                        tm = tms.get(last_seg(m["path"]))
                        allowed = heapy_types(sig_types(tm)) if tm else set()
                        bad = heapy_types(sig_types(m)) - allowed
                        bad = set(t for t in bad if not any(a in t for a in allowed))
                        rep.count("signatures_checked")
                        if bad:
                            rep.add("R-ZERO", "%s :: %s target-sig" % (key0, last_seg(m["path"])), "delegation-target method introduces %s" % sorted(bad), where=exp.label())
            elif exp.mode == "impl":
                v = ImplBlockView(crate, exp)
                if v.dynamic or not v.trait_impls:
                    continue
                programs += 1
                by_name = {last_seg(o["path"]): o for o in v.originals}
                for name, im in impl_methods(crate, v.trait_impls[0]).items():
                    o = by_name.get(name)
                    allowed = heapy_types(sig_types(o)) if o else set()
                    check_body(rep, "%s :: %s" % (key0, name), exp, im, allowed, cfg)
    rep.floor("bodies_checked", 150)
    rep.floor("generator_literals_scanned", 60)  # vacuity guard (94 today)
    rep.coverage.update({"programs": programs, "disagreements_checked": rep.counters.get("bodies_checked", 0),
                         "explanation": "for every generated body of a static-delegation expansion (fn, mod, trait with Self/selector delegation, non-ref impl block; async_trait excluded): no callee in alloc, no InstanceKind::Virtual callee, no callee whose Self is dyn, no unsizing adjustment, and no Box/Rc/Arc/Vec/String/dyn type among the body's expression types or the generated signatures beyond those the user's own signature contains; async trait methods return an opaque future, never Pin<Box<..>>. A wrapper without allocation site or dynamic call adds zero allocations at any call depth (each level is such a wrapper).",
                         "configs": configs})
    rep.assumptions += ["allocation counts are not measured: only the structural fact that makes them equal is decided",
                        "rustc's lowering of async blocks does not allocate"]
    return rep.finish()
