"""C04 — dependency bounds bubble up exactly."""
from ..common import Report
from ..corpus import load, load_repo_tests, load_repo_examples
from ..docgen import load_repo_docs
from ..crossgen import load_cross
from ..wrules import check_fnmod_predicates

RULE_TEXT = ("R-PRED over every fn/mod expansion: the resolved predicate set of each generated impl "
             "(tcx.predicates_of, implicit Sized dropped, regions erased) equals {T: Sync, T: 'static, T: Send iff a "
             "method takes self by value} ∪ {every predicate the user declared on the deps parameter of any original "
             "function — inline, where-clause or impl-Trait sugar, as lowered by rustc — with the deps parameter "
             "replaced by the impl's self type} ∪ {the functions' remaining predicates}; the self type is T when no "
             "mock support is requested and ::entrait::Impl<T> when it is. Set equality is the iff of the property, "
             "for all application types.")


def run(tier):
    rep = Report("C04", tier, "translation_validation")
    configs = ["plain", "unimock_test"] if tier == "quick" else ["plain", "test", "unimock", "unimock_test"]
    programs = 0
    loaded = [(cfg, load(rep, "pos", cfg)) for cfg in configs]
    loaded += [(cfg, load_cross(rep, cfg, tier)) for cfg in configs]
    if tier == "thorough":
        loaded.append(("unimock_test", load_repo_tests(rep)))
        loaded += [("unimock_test", ld) for ld in load_repo_examples(rep)]
        loaded.append(("unimock_test", load_repo_docs(rep)))
    for cfg, ld in loaded:
        for exp in ld.crate.expansions:
            if exp.mode in ("fn", "mod"):
                check_fnmod_predicates(rep, ld.crate, exp, cfg)
                programs += 1
    rep.floor("impls_compared", 60)
    rep.coverage.update({
        "programs": programs,
        "disagreements_checked": rep.counters.get("predicates_compared", 0),
        "explanation": RULE_TEXT,
        "configs": configs,
    })
    rep.assumptions += ["rustc lowers inline bounds, where clauses and impl-Trait sugar to the same predicates"]
    return rep.finish()
