"""C20 — expansion is a pure function of (attribute, item): effect audit of the generator."""
import os

from ..common import REPO, Report, walk_files
from ..grules import (effect_findings, entry_points, fn_of, load_controls, load_gen, print_sites, where, callee_names)

EXPECTED_CONTROLS = {
    "ctl_static_counter": "G-EFFECT", "ctl_thread_local": "G-EFFECT", "ctl_env": "G-EFFECT", "ctl_time": "G-EFFECT",
    "ctl_hash_iter": "G-HASH", "ctl_hash_iter_ref": "G-HASH", "ctl_hash_map_keys": "G-HASH", "ctl_ptr_to_int": "G-EFFECT",
    "ctl_fs": "G-EFFECT", "ctl_debug_format": "G-EFFECT",
}
MUST_NOT_FLAG = ("ctl_hash_ok", "ctl_display_format_ok")


def run(tier):
    rep = Report("C20", tier, "other")
    # positive controls first: the rules must fire on the embedded bad examples
    ctl = effect_findings(load_controls())
    flagged = {}
    for rule, key, msg, wh in ctl:
        name = key.split()[0].split("::")[-1]
        flagged.setdefault(name, set()).add(rule)
    for name, rule in EXPECTED_CONTROLS.items():
        rep.require(rule in flagged.get(name, ()), "positive control `%s` was not flagged by %s — the rule is broken" % (name, rule))
        rep.count("positive_controls_flagged")
    for name in MUST_NOT_FLAG:
        rep.require(name not in flagged, "negative control `%s` was flagged (%s) — the rule is too strict" % (name, flagged.get(name)))
    # G-CFG: the generator does not consult its own build configuration / source position (token trees of its source)
    from ..grules import buildcfg_findings
    from ..common import REPO, VERIF
    ctl_cfg, _nf, _nt = buildcfg_findings(os.path.join(VERIF, "witness", "gctl", "src"), os.path.join(VERIF, "witness", "gctl"))
    ctl_keys = " | ".join(k for _r, k, _m, _w in ctl_cfg)
    for needle in ("cfg!", "#[cfg(target_os", "option_env!", "line!"):
        rep.require(needle in ctl_keys, "positive control for G-CFG (`%s`) was not flagged" % needle)
        rep.count("positive_controls_flagged")
    found, nfiles, ntok = buildcfg_findings(os.path.join(REPO, "entrait_macros", "src"), REPO)
    rep.require(nfiles >= 15, "only %d source files of entrait_macros were scanned" % nfiles)
    rep.count("source_files_scanned", nfiles)
    rep.count("source_tokens_scanned", ntok)
    for rule, key, msg, wh in found:
        rep.add(rule, key, msg, where=wh)
    facts, wall = load_gen()
    bodies = [b for b in facts["bodies"] if not b.get("stolen")]
    rep.require(len(bodies) >= 150, "only %d bodies of entrait_macros were analysed" % len(bodies))
    rep.count("bodies_analysed", len(bodies))
    rep.count("calls_analysed", sum(len(b["calls"]) for b in bodies))
    for rule, key, msg, wh in effect_findings(facts):
        rep.add(rule, key, msg, where=wh)
    # statics declared in the crate: only the compiler's proc-macro registration table
    for s in facts["statics"]:
        if s["path"].endswith("::_DECLS"):
            continue
        rep.add("G-EFFECT", "static item " + s["path"], "the macro crate declares a static item `%s`" % s["path"],
                where="%s:%d" % (s["span"]["file"], s["span"]["lo_line"]))
    # entry points: each calls one shared dispatcher; their option closures capture nothing
    eps = entry_points(facts)
    rep.require(len(eps) >= 4, "expected at least 4 proc-macro entry points, found %d" % len(eps))
    rep.count("entry_points", len(eps))
    by_path = {b["path"]: b for b in bodies}
    dispatchers = set()
    for e in eps:
        local = set()
        for c in e["calls"]:
            for n in callee_names(c):
                if n.startswith("crate::"):
                    local.add(n)
        if len(local) != 1:
            rep.add("G-ENTRY", e["path"] + " dispatch", "entry point calls %s; expected exactly one shared dispatcher" % sorted(local), where=where(e))
        dispatchers |= local
        for cl in e["closures"]:
            cb = by_path.get(cl)
            if cb is not None and cb.get("captures"):
                rep.add("G-ENTRY", e["path"] + " closure-captures", "option-fallback closure captures state: %s" % cb["captures"], where=where(cb))
    if len(dispatchers) != 1:
        rep.add("G-ENTRY", "dispatcher", "entry points do not share one dispatcher: %s" % sorted(dispatchers))
    # debug printing only in the dispatcher
    for b, c in print_sites(facts):
        rep.count("print_sites")
        if fn_of(b["path"]) not in dispatchers:
            rep.add("G-EFFECT", "%s prints" % fn_of(b["path"]), "output to stdout outside the entry dispatcher", where=where(b, c))
    # hash collections in use (floor: the name bookkeeping set)
    nhash = 0
    for b in bodies:
        for c in b["calls"]:
            if "Hash" in " ".join(c.get("gargs_s", []) + c["arg_tys"]):
                nhash += 1
    rep.count("hash_collection_call_sites", nhash)
    # crate-level facts
    root = os.path.join(REPO, "entrait_macros")
    if os.path.exists(os.path.join(root, "build.rs")):
        rep.add("G-EFFECT", "build.rs", "the macro crate has a build script")
    with open(os.path.join(root, "Cargo.toml")) as f:
        manifest = f.read()
    if "\nbuild" in manifest and "build =" in manifest.replace(" ", " "):
        rep.add("G-EFFECT", "Cargo.toml build", "the macro crate declares a build script")
    deps = [l.split("=")[0].strip() for l in manifest.split("[dependencies]")[-1].split("[")[0].splitlines() if "=" in l]
    for d in deps:
        if d not in ("syn", "quote", "proc-macro2"):
            rep.add("G-EFFECT", "dependency " + d, "the macro crate depends on `%s` (outside the trusted syn/quote/proc-macro2 set)" % d)
    rep.samples = [{"body": b["path"], "calls": len(b["calls"])} for b in bodies[:6]]
    rep.coverage.update({
        "explanation": "effect audit over the type-checked MIR of every body of entrait_macros (functions, closures, ToTokens impls): no static/thread-local access, no callee in env/time/fs/net/process/thread/sync/io (stdout only in the shared entry dispatcher), no pointer-to-integer cast; HashSet/HashMap values only through membership operations (no iteration-order-exposing callee); four entry points share one dispatcher and their option closures capture nothing; no build script; dependencies limited to syn/quote/proc-macro2. Positive controls (witness/gctl) must be flagged on every run.",
        "obligations": rep.counters.get("bodies_analysed", 0),
        "discharged": rep.counters.get("bodies_analysed", 0) - len(set(f.key.split()[0] for f in rep.findings)),
        "checker_cmd": "./check C20 quick",
        "trusted_base": ["rustc MIR construction", "syn, quote, proc-macro2 and std are deterministic for equal inputs (HashSet iteration excepted and checked)"],
    })
    rep.assumptions += ["determinism of syn/quote/proc_macro2/rustc themselves is trusted"]
    return rep.finish()
