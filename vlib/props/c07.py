"""C07 — dependency inversion: Impl<T> reaches the selected implementation block."""
from ..common import Report
from ..corpus import load, load_kf, load_repo_tests, load_repo_examples
from ..docgen import load_repo_docs
from ..crossgen import load_cross
from ..modgen import load_modseq
from ..traitgen import load_traitseq
from ..common import CheckError
from ..wrules import last_seg, impl_methods
from ..wrules import check_trait_forwarding, check_implblock, check_inversion_traits


def run(tier):
    rep = Report("C07", tier, "translation_validation")
    configs = ["plain", "unimock_test"] if tier == "quick" else ["plain", "test", "unimock", "unimock_test"]
    programs = 0
    loaded = [(cfg, load(rep, "pos", cfg)) for cfg in configs]
    loaded += [(cfg, load_cross(rep, cfg, tier)) for cfg in configs]
    # script-enumerated impl-block item sequences (vlib/modgen.py)
    loaded.append(("plain", load_modseq(rep, "plain", tier)))
    # script-enumerated traits with a delegation target (vlib/traitgen.py, selectors `target` / `target_ref`)
    loaded.append(("plain", load_traitseq(rep, "plain", tier)))
    if tier == "thorough":
        loaded.append(("unimock_test", load_repo_tests(rep)))
        loaded += [("unimock_test", ld) for ld in load_repo_examples(rep)]
        loaded.append(("unimock_test", load_repo_docs(rep)))
    for cfg, ld in loaded:
        for exp in ld.crate.expansions:
            if exp.mode == "trait" and exp.attr and exp.attr.positional:
                v = check_trait_forwarding(rep, ld.crate, exp, cfg)
                check_inversion_traits(rep, ld.crate, exp, v, cfg)
                programs += 1
            elif exp.mode == "impl":
                v = check_implblock(rep, ld.crate, exp, cfg)
                programs += 1
                gen_wants = getattr(ld.crate, "modseq_wants", None)
                if gen_wants is not None and v.trait_impls:
                    i = int(last_seg(exp.module)[1:])
                    have = [last_seg(o["path"]) for o in v.originals]
                    if sorted(have) != sorted(gen_wants[i]):
                        raise CheckError("modgen: generator expects functions %s in impl block of %s but rustc's item tree says %s" % (gen_wants[i], exp.module, have))
                    got = sorted(impl_methods(ld.crate, v.trait_impls[0]))
                    rep.count("impl_block_sequences_checked")
                    if got != sorted(gen_wants[i]):
                        rep.add("R-METHODS", exp.ident() + " seq-methods", "trait impl methods %s differ from the block's functions %s" % (got, sorted(gen_wants[i])), where=exp.label())
    # generic entraited traits with a delegation target (known finding, witness/kf)
    load_kf(rep, {"c07_generic_target": "a generic entraited trait with a static delegation target expands to code naming `TraitImpl<T>` without the trait's own generic arguments",
                  "c07_generic_target_ref": "a generic entraited trait with `delegate_by = ref` and a delegation target expands to code naming `dyn TraitImpl<T>` without the trait's own generic arguments"})
    rep.floor("generated_methods_checked", 30)
    rep.floor("impl_block_sequences_checked", 200)
    rep.coverage.update({"programs": programs,
                         "disagreements_checked": rep.counters.get("generated_methods_checked", 0),
                         "explanation": "R-DELEG for the front half (projection / dyn adapter) and the back half (inherent function of the same block), R-PRED on both impls, shape of the generated TraitImpl<T> and Selector<T> traits",
                         "configs": configs})
    return rep.finish()
