"""C07 — dependency inversion: Impl<T> reaches the selected implementation block."""
from ..common import Report
from ..corpus import load, load_kf, load_repo_tests, load_repo_examples
from ..docgen import load_repo_docs
from ..crossgen import load_cross
from ..wrules import check_trait_forwarding, check_implblock, check_inversion_traits


def run(tier):
    rep = Report("C07", tier, "translation_validation")
    configs = ["plain", "unimock_test"] if tier == "quick" else ["plain", "test", "unimock", "unimock_test"]
    programs = 0
    loaded = [(cfg, load(rep, "pos", cfg)) for cfg in configs]
    loaded += [(cfg, load_cross(rep, cfg, tier)) for cfg in configs]
    if tier == "thorough":
        loaded.append(("unimock_test", load_repo_tests(rep)))
        loaded += [("unimock_test", ld) for ld in load_repo_examples(rep)]
        loaded.append(("unimock_test", load_repo_docs(rep)))
    for cfg, ld in loaded:
        for exp in ld.crate.expansions:
            if exp.mode == "trait" and exp.attr and exp.attr.positional:
                v = check_trait_forwarding(rep, ld.crate, exp, cfg)
                check_inversion_traits(rep, ld.crate, exp, v, cfg)
                programs += 1
            elif exp.mode == "impl":
                check_implblock(rep, ld.crate, exp, cfg)
                programs += 1
    # generic entraited traits with a delegation target (known finding, witness/kf)
    load_kf(rep, {"c07_generic_target": "a generic entraited trait with a static delegation target expands to code naming `TraitImpl<T>` without the trait's own generic arguments",
                  "c07_generic_target_ref": "a generic entraited trait with `delegate_by = ref` and a delegation target expands to code naming `dyn TraitImpl<T>` without the trait's own generic arguments"})
    rep.floor("generated_methods_checked", 30)
    rep.coverage.update({"programs": programs,
                         "disagreements_checked": rep.counters.get("generated_methods_checked", 0),
                         "explanation": "R-DELEG for the front half (projection / dyn adapter) and the back half (inherent function of the same block), R-PRED on both impls, shape of the generated TraitImpl<T> and Selector<T> traits",
                         "configs": configs})
    return rep.finish()
