"""Witness-tier rules (uniform predicates over every entrait expansion of a type-checked crate)."""
from .deleg import Body, describe, callee_of, ASREF, BORROW
from .model import ty_s, clause_s, subst, mentions, macro_base, is_entrait_macro

IMPL_ADT = "implementation::Impl"
UNIMOCK_ADT = "unimock::Unimock"


def last_seg(path):
    return path.split("::")[-1]


def is_impl_adt(t):
    return t.get("t") == "adt" and t["path"] == IMPL_ADT


def trait_methods(crate, trait_def):
    out = []
    for it in trait_def["items"]:
        if it["kind"] == "AssocFn" and not it["synthetic"]:
            d = crate.get(it["path"])
            if d is not None:
                out.append(d)
    return out


def impls_of(crate, trait_path):
    return [d for d in crate.defs if d["kind"] == "Impl" and d.get("of_trait") and d["of_trait"]["trait"] == trait_path]


def impl_methods(crate, impl_def):
    out = {}
    for it in impl_def["items"]:
        if it["kind"] == "AssocFn":
            d = crate.get(it["path"])
            if d is not None:
                out[it["name"]] = d
    return out


def in_macro(d, names):
    return any(macro_base(e["name"]) in names for e in d["expn"])


def entrait_depth(d):
    return sum(1 for e in d["expn"] if is_entrait_macro(e))


class FnModView:
    """fn / mod expansion: original function(s), generated trait, generated impls."""

    def __init__(self, crate, exp):
        self.crate = crate
        self.exp = exp
        self.problems = []
        top = [d for d in exp.defs if len(d["expn"]) == 1]
        name = exp.attr.trait_name if exp.attr else None
        self.module_def = None
        if exp.mode == "mod":
            mods = [d for d in top if d["kind"] == "Mod" and d.get("parent") == exp.module]
            self.module_def = mods[0]
            scope = self.module_def["path"]
        else:
            scope = exp.module
        self.scope = scope
        self.all_fns = [d for d in exp.defs if d["kind"] == "Fn" and d.get("parent") == scope]
        if exp.mode == "mod":
            self.originals = [d for d in self.all_fns if d.get("vis_written")]
        else:
            self.originals = list(self.all_fns)
        traits = [d for d in exp.defs if d["kind"] == "Trait" and d.get("parent") == scope and last_seg(d["path"]) == name]
        self.trait = traits[0] if traits else None
        mine = set(id(d) for d in exp.defs)
        allimpls = impls_of(crate, self.trait["path"]) if self.trait else []
        self.impls = [i for i in allimpls if id(i) in mine]
        self.foreign_impls = [i for i in allimpls if id(i) not in mine]
        self.no_deps = bool(exp.attr and exp.attr.flag("no_deps"))
        self.uses_async_trait = any(in_macro(d, ("async_trait",)) for d in exp.defs)

    def deps_kind(self, orig):
        """'nodeps' | 'generic' | 'concrete' for one original function, from its own signature."""
        if self.no_deps:
            return "nodeps"
        ins = orig["sig"]["inputs"]
        if not ins:
            return "none"
        t = ins[0]
        while t.get("t") == "ref":
            t = t["inner"]
        if t.get("t") == "param":
            return "generic"
        return "concrete"

    def deps_param(self, orig):
        ins = orig["sig"]["inputs"]
        if self.no_deps or not ins:
            return None
        t = ins[0]
        while t.get("t") == "ref":
            t = t["inner"]
        return t["name"] if t.get("t") == "param" else None


def check_fnmod_delegation(report, crate, exp, cfg, rule="R-DELEG"):
    """C01 (and the structural half of C14): every method of every generated impl of the trait is one
    call of the original function of the same name, operands = the method's parameters in order."""
    v = FnModView(crate, exp)
    key0 = exp.ident()
    if v.trait is None:
        report.add(rule, key0 + " trait", "no generated trait named `%s` found in the expansion" % (exp.attr.trait_name if exp.attr else "?"),
                   where=exp.label())
        return v
    methods = trait_methods(crate, v.trait)
    by_name = {last_seg(o["path"]): o for o in v.originals}
    if not v.impls:
        report.add(rule, key0 + " impl", "generated trait has no implementation at all", where=exp.label())
    for imp in v.impls:
        if in_macro(imp, ("unimock", "automock")):
            continue
        self_ty = imp["self_ty"]
        concrete_forward = False
        # the forwarding impl for Impl<T> of a concrete-deps trait comes from a *nested* entrait expansion
        nested = entrait_depth(imp) > 1
        ims = impl_methods(crate, imp)
        for m in methods:
            mname = last_seg(m["path"])
            im = ims.get(mname)
            mkey = "%s :: %s" % (key0, mname)
            if im is None:
                report.add(rule, mkey, "impl for `%s` lacks method `%s`" % (imp["self_ty_s"], mname), where=exp.label())
                continue
            report.count("generated_methods_checked")
            orig = by_name.get(mname)
            if orig is None:
                report.add(rule, mkey, "trait method `%s` has no original function of that name in scope `%s`" % (mname, v.scope),
                           where=exp.label())
                continue
            if in_macro(im, ("async_trait",)):
                check_async_trait_body(report, rule, mkey, im, orig, v, exp, nested)
                continue
            b = Body(im)
            desc = describe(b)
            report.sample({"method": im["path"], "config": cfg, "delegate": desc})
            for p in b.problems:
                report.add(rule, mkey + " shape", "body of `%s` is not a single delegating call: %s" % (im["path"], p),
                           where=exp.label(), data=desc)
            if b.delegate is None:
                continue
            if nested:
                check_self_forward(report, rule, mkey, b, im, m, exp)
                continue
            d = b.delegate
            c = callee_of(d)
            if d["k"] != "call" or c.get("def") != orig["path"] or c.get("kind") != "Fn":
                report.add(rule, mkey + " callee", "method `%s` calls `%s`, expected the original function `%s`"
                           % (im["path"], c.get("def") or d.get("name"), orig["path"]), where=exp.label(), data=desc)
                continue
            r = c.get("resolved")
            if not isinstance(r, dict) or r["def"] != orig["path"] or r["kind"] != "Item":
                report.add(rule, mkey + " callee-resolved", "delegate callee does not resolve statically to `%s`: %s"
                           % (orig["path"], r), where=exp.label(), data=desc)
            kind = v.deps_kind(orig)
            nparams = len(im["params"])
            args = b.delegate_args()
            if kind == "nodeps":
                expected = list(range(1, nparams))
            else:
                expected = list(range(0, nparams))
            if kind == "none":
                expected = list(range(0, nparams))
            if args != expected:
                report.add(rule, mkey + " operands",
                           "operands of the delegate call are parameters %s of the method, expected %s (each parameter once, in declared order)"
                           % (args, expected), where=exp.label(), data=desc)
            if len(d["args"]) != len(orig["sig"]["inputs"]):
                report.add(rule, mkey + " arity", "delegate call passes %d operands, original takes %d"
                           % (len(d["args"]), len(orig["sig"]["inputs"])), where=exp.label(), data=desc)
            if b.awaited != bool(orig["asyncness"]):
                report.add(rule, mkey + " await", "original is %sasync but the delegate call is %sawaited"
                           % ("" if orig["asyncness"] else "not ", "" if b.awaited else "not "), where=exp.label(), data=desc)
            # the deps generic argument of the callee is the impl's own self type
            dp = v.deps_param(orig)
            if dp is not None:
                names = [g["name"] for g in orig["generics"]["own"] if g["kind"] != "lifetime"]
                gargs = [a for a in c.get("args", []) if a.get("t") != "region"]
                if dp in names and len(gargs) == len(names):
                    got = gargs[names.index(dp)]
                    if ty_s(got) != ty_s(self_ty):
                        report.add(rule, mkey + " deps-type", "function is instantiated with deps = `%s`, expected the receiver type `%s`"
                                   % (ty_s(got), ty_s(self_ty)), where=exp.label(), data=desc)
            # MIR cross-check (sync bodies)
            mir = im.get("mir")
            if mir and not orig["asyncness"]:
                local_calls = [x for x in mir["calls"] if x["def"] == orig["path"]]
                if len(mir["calls"]) != 1 or len(local_calls) != 1:
                    report.add(rule, mkey + " mir", "MIR of `%s` has %d call terminators (%s), expected exactly one call of `%s`"
                               % (im["path"], len(mir["calls"]), [x["def"] for x in mir["calls"]], orig["path"]), where=exp.label())
    # method list == original list (names, order)
    mnames = [last_seg(m["path"]) for m in methods]
    onames = [last_seg(o["path"]) for o in v.originals]
    if mnames != onames:
        report.add("R-METHODS", key0 + " methods", "trait methods %s differ from the original functions %s" % (mnames, onames),
                   where=exp.label())
    return v


def check_self_forward(report, rule, mkey, b, im, m, exp):
    """`impl Trait for Impl<T> where T: Trait`: `self.as_ref().m(args..)` with <T as Trait>::m."""
    d = b.delegate
    c = callee_of(d)
    desc = describe(b)
    if d["k"] != "mcall" or c.get("def") != m["path"]:
        report.add(rule, mkey + " forward-callee", "forwarding method calls `%s`, expected trait method `%s`"
                   % (c.get("def"), m["path"]), where=exp.label(), data=desc)
        return
    if len(b.hops) != 1 or callee_of(b.hops[0]).get("def") != ASREF:
        report.add(rule, mkey + " forward-hops", "receiver is not `self.as_ref()` (hops: %s)" % desc["hops"], where=exp.label(), data=desc)
    elif b.arg_param(b.recv) != 0:
        report.add(rule, mkey + " forward-recv", "receiver of the forwarding call is not derived from `self`", where=exp.label(), data=desc)
    n = len(im["params"])
    if b.delegate_args() != list(range(1, n)):
        report.add(rule, mkey + " forward-operands", "operands %s, expected %s" % (b.delegate_args(), list(range(1, n))),
                   where=exp.label(), data=desc)
    a0 = [a for a in c.get("args", []) if a.get("t") != "region"]
    if not a0 or a0[0].get("t") != "param":
        report.add(rule, mkey + " forward-self", "forwarded call is not on the type parameter T (Self = %s)"
                   % (ty_s(a0[0]) if a0 else "?"), where=exp.label(), data=desc)


def check_async_trait_body(report, rule, mkey, im, orig, v, exp, nested):
    """Bodies rewritten by `async_trait`: Box::pin(async move { … let __ret = { <delegate>.await }; … }).
    The shape belongs to async_trait; what is checked: exactly one call of a local definition, which is
    the original function, whose operands are (re-bindings of) the parameters in order, awaited once."""
    from .deleg import all_calls, walk, strip
    calls = all_calls(im["body"])
    local = [c for c in calls if callee_of(c).get("local")]
    report.count("async_trait_methods_checked")
    if len(local) != 1:
        report.add(rule, mkey + " async_trait-calls", "async_trait body contains %d calls of local definitions, expected 1: %s"
                   % (len(local), [callee_of(c).get("def") for c in local]), where=exp.label())
        return
    d = local[0]
    c = callee_of(d)
    want = orig["path"]
    if not nested and c.get("def") != want:
        report.add(rule, mkey + " callee", "method calls `%s`, expected `%s`" % (c.get("def"), want), where=exp.label())
    # parameter flow: collect `let x = y` chains
    env = {}
    for i, p in enumerate(im["params"]):
        if p["p"] == "binding":
            env[p["hir_id"]] = i
    changed = True
    lets = []

    def coll(n):
        if n.get("k") == "block":
            for st in n["stmts"]:
                if st["s"] == "let" and st["pat"]["p"] == "binding" and st["init"] is not None:
                    lets.append(st)
    walk(im["body"], coll)
    while changed:
        changed = False
        for st in lets:
            init = strip(st["init"])
            if init["k"] == "local" and init["hir_id"] in env and st["pat"]["hir_id"] not in env:
                env[st["pat"]["hir_id"]] = env[init["hir_id"]]
                changed = True
    got = []
    for a in d["args"]:
        a = strip(a)
        got.append(env.get(a.get("hir_id")) if a["k"] == "local" else None)
    n = len(im["params"])
    kind = v.deps_kind(orig)
    expected = list(range(1, n)) if kind == "nodeps" else list(range(0, n))
    if d["k"] == "mcall":
        expected = list(range(1, n))
    if got != expected:
        report.add(rule, mkey + " operands", "async_trait body passes parameters %s, expected %s" % (got, expected), where=exp.label())
    n_await = [0]

    def cnt(n):
        if n.get("k") == "match" and n.get("src") == "AwaitDesugar":
            n_await[0] += 1
    walk(im["body"], cnt)
    if n_await[0] != 1:
        report.add(rule, mkey + " await", "async_trait body awaits %d times, expected once" % n_await[0], where=exp.label())


# ----------------------------------------------------------------------------------------
# R-PRED

IMPLICIT = ("core::marker::Sized", "core::marker::MetaSized", "core::marker::PointeeSized")


def pred_set(clauses):
    out = set()
    for c in clauses:
        if c["k"] == "trait" and c["trait"] in IMPLICIT:
            continue
        out.add(clause_s(c))
    return out


def param_ty(name, index=0):
    return {"t": "param", "name": name, "index": index}


def impl_adt_of(t):
    return {"t": "adt", "path": IMPL_ADT, "args": [t]}


def expected_mockable(attr, config):
    """Mock settings of an fn/mod invocation, from the attribute text and the configuration —
    transcribed from the property text, not from the macro."""
    feature = config.startswith("unimock")
    uni = attr.flag("unimock")
    if uni is None:
        uni = feature or attr.macro in ("entrait_unimock", "entrait_export_unimock")
    mockall = attr.flag("mockall") or False
    return bool((uni and "mock_api" in attr.opts) or mockall)


def takes_self_by_value(m):
    ins = m["sig"]["inputs"]
    return bool(ins) and m.get("has_self") and ins[0].get("t") != "ref"


def check_fnmod_predicates(report, crate, exp, cfg, rule="R-PRED"):
    """C04: predicates_of(generated impl) == fixed ∪ declared deps bounds ∪ lifted where-predicates,
    and the impl's self type is T (not mockable) or Impl<T> (mockable)."""
    v = FnModView(crate, exp)
    key0 = exp.ident()
    if v.trait is None:
        return
    methods = trait_methods(crate, v.trait)
    kinds = set(v.deps_kind(o) for o in v.originals)
    concrete = "concrete" in kinds
    for imp in v.impls:
        if in_macro(imp, ("unimock", "automock")) or entrait_depth(imp) > 1:
            continue
        report.count("impls_compared")
        actual = pred_set(imp["predicates"]["own"])
        self_ty = imp["self_ty"]
        own_types = [g["name"] for g in imp["generics"]["own"] if g["kind"] == "type"]
        expected = set()
        if concrete:
            want_self = None
        else:
            t = param_ty("EntraitT")
            mock = expected_mockable(exp.attr, cfg)
            want_self = impl_adt_of(t) if mock else t
            if ty_s(self_ty) != ty_s(want_self):
                report.add(rule, key0 + " self-type",
                           "impl self type is `%s`, expected `%s` (%s)" % (ty_s(self_ty), ty_s(want_self),
                                                                         "mock support requested" if mock else "no mock support requested"),
                           where=exp.label(), data={"config": cfg})
            expected.add("EntraitT: core::marker::Sync")
            expected.add("EntraitT: 'static")
            if any(takes_self_by_value(m) for m in methods):
                expected.add("EntraitT: core::marker::Send")
        lifted = {}  # clause string -> method names that must carry it if the impl does not
        for o in v.originals:
            dp = v.deps_param(o)
            for c in o["predicates"]["own"]:
                if c["k"] == "trait" and c["trait"] in IMPLICIT:
                    continue
                if dp is not None and mentions(c, lambda n: n.get("t") == "param" and n.get("name") == dp):
                    if want_self is None:
                        continue
                    expected.add(clause_s(subst(c, {dp: want_self})))
                else:
                    lifted.setdefault(clause_s(c), []).append(last_seg(o["path"]))
        # predicates on the other (lifted) generic parameters may sit on the impl or on the method
        ims = impl_methods(crate, imp)
        for cs, fnames in sorted(lifted.items()):
            if cs in actual:
                expected.add(cs)
                continue
            for fname in fnames:
                im = ims.get(fname)
                have = pred_set(im["predicates"]["own"]) if im else set()
                if cs not in have:
                    report.add(rule + "-lifted", key0 + " lifted " + cs,
                               "requirement `%s` of `%s` is neither on the generated impl nor on its method" % (cs, fname),
                               where=exp.label(), data={"config": cfg})
        missing = sorted(expected - actual)
        extra = sorted(actual - expected)
        report.count("predicates_compared", len(expected | actual))
        report.sample({"impl": imp["path"], "config": cfg, "predicates": sorted(actual)})
        for m in missing:
            report.add(rule, key0 + " missing " + m, "generated impl `%s` lacks the requirement `%s` (a declared bound was dropped)"
                       % (imp["path"], m), where=exp.label(), data={"actual": sorted(actual), "expected": sorted(expected), "config": cfg})
        for x in extra:
            report.add(rule, key0 + " extra " + x, "generated impl `%s` has the undeclared requirement `%s`"
                       % (imp["path"], x), where=exp.label(), data={"actual": sorted(actual), "expected": sorted(expected), "config": cfg})
    return v
