"""Witness-tier rules (uniform predicates over every entrait expansion of a type-checked crate)."""
from .deleg import Body, describe, callee_of, ASREF, BORROW
from .model import ty_s, clause_s, subst, mentions, macro_base, is_entrait_macro

IMPL_ADT = "implementation::Impl"
UNIMOCK_ADT = "unimock::Unimock"


def last_seg(path):
    seg = path.split("::")[-1]
    return seg[2:] if seg.startswith("r#") else seg


def is_impl_adt(t):
    return t.get("t") == "adt" and t["path"] == IMPL_ADT


def trait_methods(crate, trait_def):
    out = []
    for it in trait_def["items"]:
        if it["kind"] == "AssocFn" and not it["synthetic"]:
            d = crate.get(it["path"])
            if d is not None:
                out.append(d)
    return out


def impls_of(crate, trait_path):
    idx = getattr(crate, "_impls_by_trait", None)
    if idx is None:
        idx = {}
        for d in crate.defs:
            if d["kind"] == "Impl" and d.get("of_trait"):
                idx.setdefault(d["of_trait"]["trait"], []).append(d)
        crate._impls_by_trait = idx
    return idx.get(trait_path, [])


def impl_methods(crate, impl_def):
    out = {}
    for it in impl_def["items"]:
        if it["kind"] == "AssocFn":
            d = crate.get(it["path"])
            if d is not None:
                out[it["name"]] = d
    return out


def in_macro(d, names):
    return any(macro_base(e["name"]) in names for e in d["expn"])


def entrait_depth(d):
    return sum(1 for e in d["expn"] if is_entrait_macro(e))


class FnModView:
    """fn / mod expansion: original function(s), generated trait, generated impls."""

    def __init__(self, crate, exp):
        self.crate = crate
        self.exp = exp
        self.problems = []
        top = [d for d in exp.defs if len(d["expn"]) == 1]
        name = exp.attr.trait_name if exp.attr else None
        self.module_def = None
        if exp.mode == "mod":
            mods = [d for d in top if d["kind"] == "Mod" and d.get("parent") == exp.module]
            self.module_def = mods[0]
            scope = self.module_def["path"]
        else:
            scope = exp.module
        self.scope = scope
        self.all_fns = [d for d in exp.defs if d["kind"] == "Fn" and d.get("parent") == scope]
        if exp.mode == "mod":
            self.originals = [d for d in self.all_fns if d.get("vis_written")]
        else:
            self.originals = list(self.all_fns)
        traits = [d for d in exp.defs if d["kind"] == "Trait" and d.get("parent") == scope and last_seg(d["path"]) == name]
        self.trait = traits[0] if traits else None
        mine = set(id(d) for d in exp.defs)
        allimpls = impls_of(crate, self.trait["path"]) if self.trait else []
        self.impls = [i for i in allimpls if id(i) in mine]
        self.foreign_impls = [i for i in allimpls if id(i) not in mine]
        self.no_deps = bool(exp.attr and exp.attr.flag("no_deps"))
        self.uses_async_trait = any(in_macro(d, ("async_trait",)) for d in exp.defs)

    def deps_kind(self, orig):
        """'nodeps' | 'generic' | 'concrete' for one original function, from its own signature."""
        if self.no_deps:
            return "nodeps"
        ins = orig["sig"]["inputs"]
        if not ins:
            return "none"
        t = ins[0]
        while t.get("t") == "ref":
            t = t["inner"]
        if t.get("t") == "param":
            return "generic"
        return "concrete"

    def deps_param(self, orig):
        ins = orig["sig"]["inputs"]
        if self.no_deps or not ins:
            return None
        t = ins[0]
        while t.get("t") == "ref":
            t = t["inner"]
        return t["name"] if t.get("t") == "param" else None


def check_fnmod_delegation(report, crate, exp, cfg, rule="R-DELEG"):
    """C01 (and the structural half of C14): every method of every generated impl of the trait is one
    call of the original function of the same name, operands = the method's parameters in order."""
    v = FnModView(crate, exp)
    key0 = exp.ident()
    if v.trait is None:
        report.add(rule, key0 + " trait", "no generated trait named `%s` found in the expansion" % (exp.attr.trait_name if exp.attr else "?"),
                   where=exp.label())
        return v
    methods = trait_methods(crate, v.trait)
    by_name = {last_seg(o["path"]): o for o in v.originals}
    if not v.impls:
        report.add(rule, key0 + " impl", "generated trait has no implementation at all", where=exp.label())
    for imp in v.impls:
        if in_macro(imp, ("unimock", "automock")):
            continue
        self_ty = imp["self_ty"]
        concrete_forward = False
        # the forwarding impl for Impl<T> of a concrete-deps trait comes from a *nested* entrait expansion
        nested = entrait_depth(imp) > 1
        ims = impl_methods(crate, imp)
        for m in methods:
            mname = last_seg(m["path"])
            im = ims.get(mname)
            mkey = "%s :: %s" % (key0, mname)
            if im is None:
                report.add(rule, mkey, "impl for `%s` lacks method `%s`" % (imp["self_ty_s"], mname), where=exp.label())
                continue
            report.count("generated_methods_checked")
            orig = by_name.get(mname)
            if orig is None:
                report.add(rule, mkey, "trait method `%s` has no original function of that name in scope `%s`" % (mname, v.scope),
                           where=exp.label())
                continue
            if in_macro(im, ("async_trait",)):
                check_async_trait_body(report, rule, mkey, im, orig, v, exp, nested)
                continue
            b = Body(im)
            desc = describe(b)
            report.sample({"method": im["path"], "config": cfg, "delegate": desc})
            for p in b.problems:
                report.add(rule, mkey + " shape", "body of `%s` is not a single delegating call: %s" % (im["path"], p),
                           where=exp.label(), data=desc)
            if b.delegate is None:
                continue
            if nested:
                check_self_forward(report, rule, mkey, b, im, m, exp)
                continue
            d = b.delegate
            c = callee_of(d)
            if d["k"] != "call" or c.get("def") != orig["path"] or c.get("kind") != "Fn":
                report.add(rule, mkey + " callee", "method `%s` calls `%s`, expected the original function `%s`"
                           % (im["path"], c.get("def") or d.get("name"), orig["path"]), where=exp.label(), data=desc)
                continue
            r = c.get("resolved")
            if not isinstance(r, dict) or r["def"] != orig["path"] or r["kind"] != "Item":
                report.add(rule, mkey + " callee-resolved", "delegate callee does not resolve statically to `%s`: %s"
                           % (orig["path"], r), where=exp.label(), data=desc)
            kind = v.deps_kind(orig)
            nparams = len(im["params"])
            args = b.delegate_args()
            if kind == "nodeps":
                expected = list(range(1, nparams))
            else:
                expected = list(range(0, nparams))
            if kind == "none":
                expected = list(range(0, nparams))
            if args != expected:
                report.add(rule, mkey + " operands",
                           "operands of the delegate call are parameters %s of the method, expected %s (each parameter once, in declared order)"
                           % (args, expected), where=exp.label(), data=desc)
            if len(d["args"]) != len(orig["sig"]["inputs"]):
                report.add(rule, mkey + " arity", "delegate call passes %d operands, original takes %d"
                           % (len(d["args"]), len(orig["sig"]["inputs"])), where=exp.label(), data=desc)
            if b.awaited != bool(orig["asyncness"]):
                report.add(rule, mkey + " await", "original is %sasync but the delegate call is %sawaited"
                           % ("" if orig["asyncness"] else "not ", "" if b.awaited else "not "), where=exp.label(), data=desc)
            # the deps generic argument of the callee is the impl's own self type
            dp = v.deps_param(orig)
            if dp is not None:
                names = [g["name"] for g in orig["generics"]["own"] if g["kind"] != "lifetime"]
                gargs = [a for a in c.get("args", []) if a.get("t") != "region"]
                if dp in names and len(gargs) == len(names):
                    got = gargs[names.index(dp)]
                    if ty_s(got) != ty_s(self_ty):
                        report.add(rule, mkey + " deps-type", "function is instantiated with deps = `%s`, expected the receiver type `%s`"
                                   % (ty_s(got), ty_s(self_ty)), where=exp.label(), data=desc)
            # MIR cross-check (sync bodies)
            mir = im.get("mir")
            if mir and not orig["asyncness"]:
                local_calls = [x for x in mir["calls"] if x["def"] == orig["path"]]
                if len(mir["calls"]) != 1 or len(local_calls) != 1:
                    report.add(rule, mkey + " mir", "MIR of `%s` has %d call terminators (%s), expected exactly one call of `%s`"
                               % (im["path"], len(mir["calls"]), [x["def"] for x in mir["calls"]], orig["path"]), where=exp.label())
    # method list == original list (names, order)
    mnames = [last_seg(m["path"]) for m in methods]
    onames = [last_seg(o["path"]) for o in v.originals]
    if mnames != onames:
        report.add("R-METHODS", key0 + " methods", "trait methods %s differ from the original functions %s" % (mnames, onames),
                   where=exp.label())
    return v


def check_self_forward(report, rule, mkey, b, im, m, exp):
    """`impl Trait for Impl<T> where T: Trait`: `self.as_ref().m(args..)` with <T as Trait>::m."""
    d = b.delegate
    c = callee_of(d)
    desc = describe(b)
    if d["k"] != "mcall" or c.get("def") != m["path"]:
        report.add(rule, mkey + " forward-callee", "forwarding method calls `%s`, expected trait method `%s`"
                   % (c.get("def"), m["path"]), where=exp.label(), data=desc)
        return
    if len(b.hops) != 1 or callee_of(b.hops[0]).get("def") != ASREF:
        report.add(rule, mkey + " forward-hops", "receiver is not `self.as_ref()` (hops: %s)" % desc["hops"], where=exp.label(), data=desc)
    elif b.arg_param(b.recv) != 0:
        report.add(rule, mkey + " forward-recv", "receiver of the forwarding call is not derived from `self`", where=exp.label(), data=desc)
    n = len(im["params"])
    if b.delegate_args() != list(range(1, n)):
        report.add(rule, mkey + " forward-operands", "operands %s, expected %s" % (b.delegate_args(), list(range(1, n))),
                   where=exp.label(), data=desc)
    a0 = [a for a in c.get("args", []) if a.get("t") != "region"]
    if not a0 or a0[0].get("t") != "param":
        report.add(rule, mkey + " forward-self", "forwarded call is not on the type parameter T (Self = %s)"
                   % (ty_s(a0[0]) if a0 else "?"), where=exp.label(), data=desc)


def check_async_trait_body(report, rule, mkey, im, orig, v, exp, nested):
    """Bodies rewritten by `async_trait`: Box::pin(async move { … let __ret = { <delegate>.await }; … }).
    The shape belongs to async_trait; what is checked: exactly one call of a local definition, which is
    the original function, whose operands are (re-bindings of) the parameters in order, awaited once."""
    from .deleg import all_calls, walk, strip
    calls = all_calls(im["body"])
    local = [c for c in calls if callee_of(c).get("local")]
    report.count("async_trait_methods_checked")
    if len(local) != 1:
        report.add(rule, mkey + " async_trait-calls", "async_trait body contains %d calls of local definitions, expected 1: %s"
                   % (len(local), [callee_of(c).get("def") for c in local]), where=exp.label())
        return
    d = local[0]
    c = callee_of(d)
    want = orig["path"]
    if not nested and c.get("def") != want:
        report.add(rule, mkey + " callee", "method calls `%s`, expected `%s`" % (c.get("def"), want), where=exp.label())
    # parameter flow: collect `let x = y` chains
    env = {}
    for i, p in enumerate(im["params"]):
        if p["p"] == "binding":
            env[p["hir_id"]] = i
    changed = True
    lets = []

    def coll(n):
        if n.get("k") == "block":
            for st in n["stmts"]:
                if st["s"] == "let" and st["pat"]["p"] == "binding" and st["init"] is not None:
                    lets.append(st)
    walk(im["body"], coll)
    while changed:
        changed = False
        for st in lets:
            init = strip(st["init"])
            if init["k"] == "local" and init["hir_id"] in env and st["pat"]["hir_id"] not in env:
                env[st["pat"]["hir_id"]] = env[init["hir_id"]]
                changed = True
    got = []
    for a in d["args"]:
        a = strip(a)
        got.append(env.get(a.get("hir_id")) if a["k"] == "local" else None)
    n = len(im["params"])
    kind = v.deps_kind(orig)
    expected = list(range(1, n)) if kind == "nodeps" else list(range(0, n))
    if d["k"] == "mcall":
        expected = list(range(1, n))
    if got != expected:
        report.add(rule, mkey + " operands", "async_trait body passes parameters %s, expected %s" % (got, expected), where=exp.label())
    n_await = [0]

    def cnt(n):
        if n.get("k") == "match" and n.get("src") == "AwaitDesugar":
            n_await[0] += 1
    walk(im["body"], cnt)
    if n_await[0] != 1:
        report.add(rule, mkey + " await", "async_trait body awaits %d times, expected once" % n_await[0], where=exp.label())


# ----------------------------------------------------------------------------------------
# R-PRED

IMPLICIT = ("core::marker::Sized", "core::marker::MetaSized", "core::marker::PointeeSized")


def pred_set(clauses):
    out = set()
    for c in clauses:
        if c["k"] == "trait" and c["trait"] in IMPLICIT:
            continue
        out.add(clause_s(c))
    return out


def param_ty(name, index=0):
    return {"t": "param", "name": name, "index": index}


def impl_adt_of(t):
    return {"t": "adt", "path": IMPL_ADT, "args": [t]}


def expected_mockable(attr, config):
    """Mock settings of an fn/mod invocation, from the attribute text and the configuration —
    transcribed from the property text, not from the macro."""
    feature = config.startswith("unimock")
    uni = attr.flag("unimock")
    if uni is None:
        uni = feature or attr.macro in ("entrait_unimock", "entrait_export_unimock")
    mockall = attr.flag("mockall") or False
    return bool((uni and "mock_api" in attr.opts) or mockall)


def takes_self_by_value(m):
    ins = m["sig"]["inputs"]
    return bool(ins) and m.get("has_self") and ins[0].get("t") != "ref"


def check_fnmod_predicates(report, crate, exp, cfg, rule="R-PRED"):
    """C04: predicates_of(generated impl) == fixed ∪ declared deps bounds ∪ lifted where-predicates,
    and the impl's self type is T (not mockable) or Impl<T> (mockable)."""
    v = FnModView(crate, exp)
    key0 = exp.ident()
    if v.trait is None:
        return
    methods = trait_methods(crate, v.trait)
    kinds = set(v.deps_kind(o) for o in v.originals)
    concrete = "concrete" in kinds
    for imp in v.impls:
        if in_macro(imp, ("unimock", "automock")) or entrait_depth(imp) > 1:
            continue
        report.count("impls_compared")
        actual = pred_set(imp["predicates"]["own"])
        self_ty = imp["self_ty"]
        own_types = [g["name"] for g in imp["generics"]["own"] if g["kind"] == "type"]
        expected = set()
        if concrete:
            want_self = None
        else:
            t = param_ty("EntraitT")
            mock = expected_mockable(exp.attr, cfg)
            want_self = impl_adt_of(t) if mock else t
            if ty_s(self_ty) != ty_s(want_self):
                report.add(rule, key0 + " self-type",
                           "impl self type is `%s`, expected `%s` (%s)" % (ty_s(self_ty), ty_s(want_self),
                                                                         "mock support requested" if mock else "no mock support requested"),
                           where=exp.label(), data={"config": cfg})
            expected.add("EntraitT: core::marker::Sync")
            expected.add("EntraitT: 'static")
            if any(takes_self_by_value(m) for m in methods):
                expected.add("EntraitT: core::marker::Send")
        lifted = {}  # clause string -> method names that must carry it if the impl does not
        for o in v.originals:
            dp = v.deps_param(o)
            for c in o["predicates"]["own"]:
                if c["k"] == "trait" and c["trait"] in IMPLICIT:
                    continue
                if dp is not None and mentions(c, lambda n: n.get("t") == "param" and n.get("name") == dp):
                    if want_self is None:
                        continue
                    expected.add(clause_s(subst(c, {dp: want_self})))
                else:
                    lifted.setdefault(clause_s(c), []).append(last_seg(o["path"]))
        # predicates on the other (lifted) generic parameters may sit on the impl or on the method
        ims = impl_methods(crate, imp)
        for cs, fnames in sorted(lifted.items()):
            if cs in actual:
                expected.add(cs)
                continue
            for fname in fnames:
                im = ims.get(fname)
                have = pred_set(im["predicates"]["own"]) if im else set()
                if cs not in have:
                    report.add(rule + "-lifted", key0 + " lifted " + cs,
                               "requirement `%s` of `%s` is neither on the generated impl nor on its method" % (cs, fname),
                               where=exp.label(), data={"config": cfg})
        missing = sorted(expected - actual)
        extra = sorted(actual - expected)
        report.count("predicates_compared", len(expected | actual))
        report.sample({"impl": imp["path"], "config": cfg, "predicates": sorted(actual)})
        for m in missing:
            report.add(rule, key0 + " missing " + m, "generated impl `%s` lacks the requirement `%s` (a declared bound was dropped)"
                       % (imp["path"], m), where=exp.label(), data={"actual": sorted(actual), "expected": sorted(expected), "config": cfg})
        for x in extra:
            report.add(rule, key0 + " extra " + x, "generated impl `%s` has the undeclared requirement `%s`"
                       % (imp["path"], x), where=exp.label(), data={"actual": sorted(actual), "expected": sorted(expected), "config": cfg})
    return v


# ----------------------------------------------------------------------------------------
# trait mode / impl-block mode

class TraitView:
    """Expansion of `#[entrait(...)] trait Trait { .. }`."""

    def __init__(self, crate, exp):
        self.crate = crate
        self.exp = exp
        a = exp.attr
        self.impl_trait_name = a.trait_name if a and a.positional else None
        db = a.opts.get("delegate_by") if a else None
        if db is None or db is True or db == "Self":
            self.kind = "self"
        elif db == "ref":
            self.kind = "asref"
        elif db == "Borrow":
            self.kind = "borrow"
        else:
            self.kind = "trait"
            self.selector_name = db
        traits = [d for d in exp.defs if d["kind"] == "Trait" and d.get("parent") == exp.module]
        special = {self.impl_trait_name}
        if self.kind == "trait":
            special.add(self.selector_name)
        mains = [t for t in traits if last_seg(t["path"]) not in special]
        self.trait = mains[0] if mains else None
        self.impl_trait = next((t for t in traits if last_seg(t["path"]) == self.impl_trait_name), None) \
            if self.impl_trait_name else None
        self.selector = next((t for t in traits if self.kind == "trait" and last_seg(t["path"]) == self.selector_name), None)
        mine = set(id(d) for d in exp.defs)
        self.impls = []
        if self.trait:
            for i in impls_of(crate, self.trait["path"]):
                if id(i) in mine and not in_macro(i, ("unimock", "automock")) and is_impl_adt(i["self_ty"]):
                    self.impls.append(i)
        self.uses_async_trait = any(in_macro(d, ("async_trait",)) for d in exp.defs)


def trait_args_s(trait_def):
    """The trait applied to its own type parameters, e.g. `crate::m::Tr<T, U>`."""
    names = [g["name"] for g in trait_def["generics"]["own"] if g["kind"] != "lifetime" and g["name"] != "Self"]
    return trait_def["path"] + ("<" + ", ".join(names) + ">" if names else "")


def check_trait_forwarding(report, crate, exp, cfg, rule="R-DELEG"):
    """C06 / C07 front half."""
    v = TraitView(crate, exp)
    key0 = exp.ident()
    if v.trait is None:
        report.add(rule, key0 + " trait", "the entraited trait was not found in the expansion", where=exp.label())
        return v
    if len(v.impls) != 1:
        report.add(rule, key0 + " impl", "expected exactly one generated `impl %s for ::entrait::Impl<T>`, found %d"
                   % (last_seg(v.trait["path"]), len(v.impls)), where=exp.label())
        return v
    imp = v.impls[0]
    methods = trait_methods(crate, v.trait)
    ims = impl_methods(crate, imp)
    if v.impl_trait_name and v.impl_trait is None:
        report.add(rule, key0 + " impl-trait", "delegation-target trait `%s` was not generated" % v.impl_trait_name, where=exp.label())
        return v
    target_methods = {}
    if v.impl_trait is not None:
        target_methods = {last_seg(m["path"]): m for m in trait_methods(crate, v.impl_trait)}
    for m in methods:
        mname = last_seg(m["path"])
        mkey = "%s :: %s" % (key0, mname)
        if m.get("has_body"):
            continue  # default method: nothing to forward
        im = ims.get(mname)
        if im is None:
            report.add(rule, mkey, "impl for Impl<T> lacks method `%s`" % mname, where=exp.label())
            continue
        report.count("generated_methods_checked")
        n = len(im["params"]) if im.get("has_body") else 0
        if in_macro(im, ("async_trait",)):
            _check_trait_async_trait(report, rule, mkey, im, m, v, exp, target_methods)
            continue
        b = Body(im)
        desc = describe(b)
        report.sample({"method": im["path"], "config": cfg, "delegate": desc})
        for p in b.problems:
            report.add(rule, mkey + " shape", "body of `%s` is not a single delegating call: %s" % (im["path"], p),
                       where=exp.label(), data=desc)
        if b.delegate is None:
            continue
        _check_trait_delegate(report, rule, mkey, b, b.delegate, b.hops, getattr(b, "recv", None), im, m, v, exp, target_methods, desc,
                              b.arg_param, b.awaited)
    return v


def _gargs(c):
    return [a for a in c.get("args", []) if a.get("t") != "region"]


def _check_trait_delegate(report, rule, mkey, b, d, hops, recv, im, m, v, exp, target_methods, desc, arg_param, awaited):
    c = callee_of(d)
    n = len(im["params"])
    mname = last_seg(m["path"])
    is_async = bool(im.get("asyncness")) or m["sig"]["output"].get("rpitit") is True and False
    if v.impl_trait is None:
        # ---- C06: forward to T (or to the dyn Trait obtained from T)
        if d["k"] != "mcall" or c.get("def") != m["path"]:
            report.add(rule, mkey + " callee", "method forwards to `%s`, expected the same trait method `%s`"
                       % (c.get("def") or d.get("name"), m["path"]), where=exp.label(), data=desc)
            return
        want_hops = {"self": [ASREF], "asref": [ASREF, ASREF], "borrow": [BORROW, ASREF]}[v.kind]
        got_hops = [callee_of(h).get("def") for h in hops]
        if got_hops != want_hops:
            report.add(rule, mkey + " hops", "receiver goes through %s, expected %s for delegation kind `%s`"
                       % (got_hops, want_hops, v.kind), where=exp.label(), data=desc)
            return
        if arg_param(recv) != 0:
            report.add(rule, mkey + " recv", "receiver chain does not start at `self`", where=exp.label(), data=desc)
        # innermost hop: Impl<T> -> T through implementation's AsRef
        inner = callee_of(hops[-1])
        r = inner.get("resolved")
        ia = _gargs(inner)
        if not (len(ia) == 2 and is_impl_adt(ia[0]) and ia[1].get("t") == "param"):
            report.add(rule, mkey + " hop-impl", "first adapter hop is not <Impl<T> as AsRef<T>>::as_ref (%s)"
                       % [ty_s(x) for x in ia], where=exp.label(), data=desc)
        elif not (isinstance(r, dict) and r["def"].startswith("<implementation::Impl<T> as core::convert::AsRef<T>>")):
            report.add(rule, mkey + " hop-impl-resolved", "first adapter hop resolves to `%s`, expected implementation's AsRef impl"
                       % (r["def"] if isinstance(r, dict) else r), where=exp.label(), data=desc)
        selfarg = _gargs(c)[0] if _gargs(c) else {}
        if v.kind == "self":
            if selfarg.get("t") != "param":
                report.add(rule, mkey + " provider", "forwarded call is on `%s`, expected the type parameter T" % ty_s(selfarg),
                           where=exp.label(), data=desc)
        else:
            outer = callee_of(hops[0])
            oa = _gargs(outer)
            ok = len(oa) == 2 and oa[0].get("t") == "param" and oa[1].get("t") == "dyn" and \
                (oa[1].get("principal") or {}).get("trait") == v.trait["path"]
            if not ok:
                report.add(rule, mkey + " provider", "second adapter hop is `%s<%s>`, expected T: %s<dyn %s>"
                           % (outer.get("def"), ", ".join(ty_s(x) for x in oa), "AsRef" if v.kind == "asref" else "Borrow",
                              v.trait["path"]), where=exp.label(), data=desc)
            r = c.get("resolved")
            is_dyn_self = selfarg.get("t") == "dyn" and (selfarg.get("principal") or {}).get("trait") == v.trait["path"]
            if not is_dyn_self or (isinstance(r, dict) and not r["kind"].startswith("Virtual")):
                report.add(rule, mkey + " virtual", "forwarded call is not a virtual call on `dyn %s` (Self = %s, resolved = %s)"
                           % (v.trait["path"], ty_s(selfarg), r), where=exp.label(), data=desc)
        args = [arg_param(a) for a in d["args"]]
        if args != list(range(1, n)):
            report.add(rule, mkey + " operands", "operands are parameters %s, expected %s" % (args, list(range(1, n))),
                       where=exp.label(), data=desc)
    else:
        # ---- C07 front half
        tm = target_methods.get(mname)
        if tm is None:
            report.add(rule, mkey + " target-method", "delegation-target trait lacks method `%s`" % mname, where=exp.label())
            return
        if c.get("def") != tm["path"]:
            report.add(rule, mkey + " callee", "method calls `%s`, expected `%s`" % (c.get("def") or d.get("name"), tm["path"]),
                       where=exp.label(), data=desc)
            return
        ga = _gargs(c)
        if v.kind == "trait":
            ok = d["k"] == "call" and len(ga) >= 2 and ga[0].get("t") == "alias" and ga[0].get("kind") == "projection" \
                and v.selector is not None and ga[0].get("trait") == v.selector["path"] and ga[0].get("assoc") == "Target"
            if ok:
                pa = [a for a in ga[0]["args"] if a.get("t") != "region"]
                ok = len(pa) == 2 and pa[0].get("t") == "param" and pa[1].get("t") == "param" and pa[0]["name"] == pa[1]["name"]
            if not ok:
                report.add(rule, mkey + " projection", "implementation is selected as `%s`, expected the projection <T as %s<T>>::Target"
                           % (ty_s(ga[0]) if ga else "?", v.selector_name), where=exp.label(), data=desc)
            if len(ga) >= 2 and ga[1].get("t") != "param":
                report.add(rule, mkey + " impl-t", "TraitImpl is instantiated with `%s`, expected T" % ty_s(ga[1]), where=exp.label(), data=desc)
            args = [arg_param(a) for a in d["args"]]
            if args != list(range(0, n)):
                report.add(rule, mkey + " operands", "operands are parameters %s, expected %s (self is the dependency argument)"
                           % (args, list(range(0, n))), where=exp.label(), data=desc)
            if hops:
                report.add(rule, mkey + " hops", "static delegation goes through adapter hops %s" % desc["hops"], where=exp.label(), data=desc)
        else:
            want = ASREF if v.kind == "asref" else BORROW
            got_hops = [callee_of(h).get("def") for h in hops]
            if d["k"] != "mcall" or got_hops != [want]:
                report.add(rule, mkey + " hops", "dynamic delegation receiver goes through %s, expected [%s]" % (got_hops, want),
                           where=exp.label(), data=desc)
                return
            outer = callee_of(hops[0])
            oa = _gargs(outer)
            ok = len(oa) == 2 and oa[0].get("t") == "param" and oa[1].get("t") == "dyn" and \
                (oa[1].get("principal") or {}).get("trait") == v.impl_trait["path"]
            if ok:
                pa = [a for a in oa[1]["principal"]["args"] if a.get("t") != "region"]
                ok = len(pa) >= 1 and pa[0].get("t") == "param"
            if not ok:
                report.add(rule, mkey + " provider", "adapter is `%s<%s>`, expected T: AsRef/Borrow<dyn %s<T>>"
                           % (outer.get("def"), ", ".join(ty_s(x) for x in oa), v.impl_trait["path"]), where=exp.label(), data=desc)
            if arg_param(recv, True) != 0:
                report.add(rule, mkey + " recv", "adapter is not applied to `&*self`", where=exp.label(), data=desc)
            r = c.get("resolved")
            is_dyn_self = bool(ga) and ga[0].get("t") == "dyn" and (ga[0].get("principal") or {}).get("trait") == v.impl_trait["path"]
            if not is_dyn_self or (isinstance(r, dict) and not r["kind"].startswith("Virtual")):
                report.add(rule, mkey + " virtual", "call is not a virtual call on `dyn %s<T>` (Self = %s, resolved = %s)"
                           % (v.impl_trait["path"], ty_s(ga[0]) if ga else "?", r), where=exp.label(), data=desc)
            args = [arg_param(a) for a in d["args"]]
            if args != list(range(0, n)):
                report.add(rule, mkey + " operands", "operands are parameters %s, expected %s (self is the dependency argument)"
                           % (args, list(range(0, n))), where=exp.label(), data=desc)
    want_async = m.get("asyncness") or _returns_future(m)
    if awaited != bool(want_async):
        report.add(rule, mkey + " await", "trait method is %sasync but the forwarded call is %sawaited"
                   % ("" if want_async else "not ", "" if awaited else "not "), where=exp.label(), data=desc)


def _returns_future(m):
    """Trait method declared `fn m() -> impl Future<..>` by entrait's rewrite of `async fn`."""
    for c in m.get("output_bounds", []):
        if c["k"] == "trait" and c["trait"] == "core::future::future::Future":
            return True
    if in_macro(m, ("async_trait",)):
        out = m["sig"]["output"]
        if out.get("t") == "adt" and out["path"] == "core::pin::Pin" and mentions(
                out, lambda n: n.get("t") == "dyn" and (n.get("principal") or {}).get("trait") == "core::future::future::Future"):
            return True
    return False


def _check_trait_async_trait(report, rule, mkey, im, m, v, exp, target_methods):
    """async_trait rewrote the body; find the single delegate inside and apply the same callee/operand rules."""
    from .deleg import all_calls, walk, strip
    report.count("async_trait_methods_checked")
    calls = all_calls(im["body"])
    tm = target_methods.get(last_seg(m["path"])) if v.impl_trait is not None else m
    cand = [c for c in calls if tm is not None and callee_of(c).get("def") == tm["path"]]
    others = [callee_of(c).get("def") for c in calls if callee_of(c).get("local") and c not in cand]
    if len(cand) != 1 or others:
        report.add(rule, mkey + " async_trait-calls", "async_trait body has %d calls of `%s` and other local calls %s; expected exactly one"
                   % (len(cand), tm["path"] if tm else "?", others), where=exp.label())
        return
    d = cand[0]
    env = {}
    for i, p in enumerate(im["params"]):
        if p["p"] == "binding":
            env[p["hir_id"]] = i
    lets = []

    def coll(n):
        if n.get("k") == "block":
            for st in n["stmts"]:
                if st["s"] == "let" and st["pat"]["p"] == "binding" and st["init"] is not None:
                    lets.append(st)
    walk(im["body"], coll)
    changed = True
    while changed:
        changed = False
        for st in lets:
            init = strip(st["init"])
            if init["k"] == "local" and init["hir_id"] in env and st["pat"]["hir_id"] not in env:
                env[st["pat"]["hir_id"]] = env[init["hir_id"]]
                changed = True

    def arg_param(e, impl_deref=False):
        e = strip(e)
        if e["k"] == "addrof":
            inner = strip(e["e"])
            if inner["k"] == "unary" and inner["op"] == "Deref":
                return arg_param(inner["e"])
            return None
        if e["k"] == "local":
            return env.get(e["hir_id"])
        return None

    class H:
        pass
    h = H()
    h.hops = []
    recv = None
    if d["k"] == "mcall":
        r = d["recv"]
        while True:
            r = strip(r)
            if r["k"] == "mcall" and callee_of(r).get("def") in (ASREF, BORROW) and not r["args"]:
                h.hops.append(r)
                r = r["recv"]
                continue
            if r["k"] == "call" and callee_of(r).get("def") in (ASREF, BORROW) and len(r["args"]) == 1:
                h.hops.append(r)
                r = r["args"][0]
                continue
            break
        recv = r
    n_await = [0]

    def cnt(n):
        if n.get("k") == "match" and n.get("src") == "AwaitDesugar":
            n_await[0] += 1
    walk(im["body"], cnt)
    desc = {"callee": callee_of(d).get("def"), "args": [arg_param(a) for a in d["args"]],
            "hops": [callee_of(x).get("def") for x in h.hops], "awaits": n_await[0]}
    _check_trait_delegate(report, rule, mkey, None, d, h.hops, recv, im, m, v, exp, target_methods, desc, arg_param,
                          n_await[0] == 1)
    if n_await[0] > 1:
        report.add(rule, mkey + " await", "async_trait body awaits %d times" % n_await[0], where=exp.label())


class ImplBlockView:
    """Expansion of `#[entrait] impl TraitImpl for X { .. }`."""

    def __init__(self, crate, exp):
        self.crate = crate
        self.exp = exp
        paths = set(d["path"] for d in exp.defs)
        self.inherent = next((d for d in exp.defs if d["kind"] == "Impl" and d.get("of_trait") is None
                              and d.get("parent") not in paths), None)
        self.trait_impls = [d for d in exp.defs if d["kind"] == "Impl" and d.get("of_trait") is not None
                            and d.get("parent") not in paths]
        self.dynamic = bool(exp.attr and exp.attr.impl_ref)
        self.originals = []
        if self.inherent:
            for it in self.inherent["items"]:
                if it["kind"] == "AssocFn":
                    d = crate.get(it["path"])
                    if d is not None:
                        self.originals.append(d)

    def deps_param(self, orig):
        ins = orig["sig"]["inputs"]
        if not ins:
            return None
        t = ins[0]
        while t.get("t") == "ref":
            t = t["inner"]
        return t["name"] if t.get("t") == "param" else None


def check_implblock(report, crate, exp, cfg, rule="R-DELEG"):
    """C07 back half: <X as TraitImpl<T>>::m is one call of the inherent X::m defined by the same
    expansion, deps = Impl<T> (the `__impl` parameter), operands in order; R-PRED for the impl."""
    v = ImplBlockView(crate, exp)
    key0 = exp.ident()
    if v.inherent is None or len(v.trait_impls) != 1:
        report.add(rule, key0 + " structure", "impl-block expansion must consist of one inherent impl and one trait impl (found %s / %d)"
                   % ("one" if v.inherent else "no", len(v.trait_impls)), where=exp.label())
        return v
    timp = v.trait_impls[0]
    if ty_s(timp["self_ty"]) != ty_s(v.inherent["self_ty"]):
        report.add(rule, key0 + " self-type", "inherent impl is for `%s` but the trait impl is for `%s`"
                   % (ty_s(v.inherent["self_ty"]), ty_s(timp["self_ty"])), where=exp.label())
    ims = impl_methods(crate, timp)
    onames = [last_seg(o["path"]) for o in v.originals]
    if sorted(ims) != sorted(onames):
        report.add("R-METHODS", key0 + " methods", "trait impl methods %s differ from the block's functions %s" % (sorted(ims), sorted(onames)),
                   where=exp.label())
    targs = [a for a in timp["of_trait"]["args"] if a.get("t") != "region"]
    if not targs or targs[0].get("t") != "param" or targs[0].get("name") != "EntraitT":
        report.add(rule, key0 + " trait-arg", "trait impl implements `%s<%s>`, expected first argument T"
                   % (timp["of_trait"]["trait"], ", ".join(ty_s(a) for a in targs)), where=exp.label())
    skip = 1 if v.dynamic else 0
    for o in v.originals:
        mname = last_seg(o["path"])
        im = ims.get(mname)
        mkey = "%s :: %s" % (key0, mname)
        if im is None:
            continue
        report.count("generated_methods_checked")
        if in_macro(im, ("async_trait",)):
            check_async_trait_implblock(report, rule, mkey, im, o, v, exp, skip)
            continue
        b = Body(im)
        desc = describe(b)
        report.sample({"method": im["path"], "config": cfg, "delegate": desc})
        for p in b.problems:
            report.add(rule, mkey + " shape", "body of `%s` is not a single delegating call: %s" % (im["path"], p),
                       where=exp.label(), data=desc)
        if b.delegate is None:
            continue
        d = b.delegate
        c = callee_of(d)
        if d["k"] != "call" or c.get("def") != o["path"]:
            report.add(rule, mkey + " callee", "method calls `%s`, expected the inherent function `%s` of the same block"
                       % (c.get("def") or d.get("name"), o["path"]), where=exp.label(), data=desc)
            continue
        r = c.get("resolved")
        if not isinstance(r, dict) or r["def"] != o["path"] or r["kind"] != "Item":
            report.add(rule, mkey + " callee-resolved", "callee does not resolve statically to `%s`: %s" % (o["path"], r),
                       where=exp.label(), data=desc)
        n = len(im["params"])
        args = b.delegate_args()
        if args != list(range(skip, n)):
            report.add(rule, mkey + " operands", "operands are parameters %s, expected %s" % (args, list(range(skip, n))),
                       where=exp.label(), data=desc)
        if b.param_names and (len(b.param_names) <= skip or b.param_names[skip] != "__impl"):
            report.add(rule, mkey + " impl-param", "dependency parameter of the generated method is `%s`, expected `__impl`"
                       % (b.param_names[skip] if len(b.param_names) > skip else None), where=exp.label(), data=desc)
        if b.awaited != bool(o["asyncness"]):
            report.add(rule, mkey + " await", "function is %sasync but the call is %sawaited"
                       % ("" if o["asyncness"] else "not ", "" if b.awaited else "not "), where=exp.label(), data=desc)
        dp = v.deps_param(o)
        if dp is not None:
            names = [g["name"] for g in o["generics"]["own"] if g["kind"] != "lifetime"]
            gargs = _gargs(c)
            # inherent assoc fn generics: parent impl generics (none) + own
            if dp in names and len(gargs) >= len(names):
                got = gargs[len(gargs) - len(names) + names.index(dp)]
                if not (is_impl_adt(got) and ty_s(got) == "implementation::Impl<EntraitT>"):
                    report.add(rule, mkey + " deps-type", "function is instantiated with deps = `%s`, expected Impl<T>" % ty_s(got),
                               where=exp.label(), data=desc)
    # R-PRED
    actual = pred_set(timp["predicates"]["own"])
    expected = {"EntraitT: core::marker::Sync", "EntraitT: 'static"}
    want_self = impl_adt_of(param_ty("EntraitT"))
    lifted = {}
    for o in v.originals:
        dp = v.deps_param(o)
        for c in o["predicates"]["own"]:
            if c["k"] == "trait" and c["trait"] in IMPLICIT:
                continue
            if dp is not None and mentions(c, lambda n: n.get("t") == "param" and n.get("name") == dp):
                expected.add(clause_s(subst(c, {dp: want_self})))
            else:
                lifted.setdefault(clause_s(c), []).append(last_seg(o["path"]))
    for cs, fnames in lifted.items():
        if cs in actual:
            expected.add(cs)
    report.count("impls_compared")
    report.count("predicates_compared", len(expected | actual))
    for m in sorted(expected - actual):
        report.add("R-PRED", key0 + " missing " + m, "trait impl of the block lacks the requirement `%s`" % m, where=exp.label(),
                   data={"actual": sorted(actual), "expected": sorted(expected)})
    for x in sorted(actual - expected):
        report.add("R-PRED", key0 + " extra " + x, "trait impl of the block has the undeclared requirement `%s`" % x, where=exp.label(),
                   data={"actual": sorted(actual), "expected": sorted(expected)})
    return v


def check_async_trait_implblock(report, rule, mkey, im, o, v, exp, skip):
    from .deleg import all_calls, walk, strip
    report.count("async_trait_methods_checked")
    calls = all_calls(im["body"])
    local = [c for c in calls if callee_of(c).get("local")]
    if len(local) != 1 or callee_of(local[0]).get("def") != o["path"]:
        report.add(rule, mkey + " async_trait-calls", "async_trait body calls %s, expected exactly `%s`"
                   % ([callee_of(c).get("def") for c in local], o["path"]), where=exp.label())
        return
    d = local[0]
    env = {}
    for i, p in enumerate(im["params"]):
        if p["p"] == "binding":
            env[p["hir_id"]] = i
    lets = []

    def coll(n):
        if n.get("k") == "block":
            for st in n["stmts"]:
                if st["s"] == "let" and st["pat"]["p"] == "binding" and st["init"] is not None:
                    lets.append(st)
    walk(im["body"], coll)
    changed = True
    while changed:
        changed = False
        for st in lets:
            init = strip(st["init"])
            if init["k"] == "local" and init["hir_id"] in env and st["pat"]["hir_id"] not in env:
                env[st["pat"]["hir_id"]] = env[init["hir_id"]]
                changed = True
    got = []
    for a in d["args"]:
        a = strip(a)
        got.append(env.get(a.get("hir_id")) if a["k"] == "local" else None)
    n = len(im["params"])
    if got != list(range(skip, n)):
        report.add(rule, mkey + " operands", "async_trait body passes parameters %s, expected %s" % (got, list(range(skip, n))),
                   where=exp.label())


def _dyn_s(trait_path, args, autos=()):
    s = "dyn " + trait_path + ("<" + ", ".join(args) + ">" if args else "")
    for a in sorted(autos):
        s += " + " + a
    return s


def check_trait_predicates(report, crate, exp, cfg, rule="R-PRED"):
    """C06: predicates of `impl Trait for Impl<T>` == {T: Sync, T: 'static} ∪ provider ∪ the trait's own
    where-predicates."""
    v = TraitView(crate, exp)
    key0 = exp.ident()
    if v.trait is None or len(v.impls) != 1:
        return v
    imp = v.impls[0]
    actual = pred_set(imp["predicates"]["own"])
    names = [g["name"] for g in v.trait["generics"]["own"] if g["kind"] != "lifetime" and g["name"] != "Self"]
    targs = "<" + ", ".join(names) + ">" if names else ""
    expected = {"EntraitT: core::marker::Sync", "EntraitT: 'static"}
    if v.kind == "self":
        expected.add("EntraitT: %s%s" % (v.trait["path"], targs))
    elif v.kind == "asref":
        expected.add("EntraitT: core::convert::AsRef<%s>" % _dyn_s(v.trait["path"], names))
    elif v.kind == "borrow":
        expected.add("EntraitT: core::borrow::Borrow<%s>" % _dyn_s(v.trait["path"], names))
    for c in v.trait["predicates"]["own"]:
        if c["k"] == "trait" and c["trait"] in IMPLICIT:
            continue
        if mentions(c, lambda n: n.get("t") == "param" and n.get("name") == "Self"):
            continue
        expected.add(clause_s(c))
    report.count("impls_compared")
    report.count("predicates_compared", len(expected | actual))
    report.sample({"impl": imp["path"], "config": cfg, "predicates": sorted(actual)})
    is_async = any(_returns_future(m) or m.get("asyncness") for m in trait_methods(crate, v.trait))
    tag = "%s%s" % (v.kind, "+async" if is_async else "")
    for m in sorted(expected - actual):
        report.add(rule, "trait-mode[%s] missing %s" % (tag, m.replace(v.trait["path"], "Trait")),
                   "`%s` lacks the requirement `%s`" % (imp["path"], m), where=exp.label(),
                   data={"actual": sorted(actual), "expected": sorted(expected), "config": cfg})
    for x in sorted(actual - expected):
        report.add(rule, "trait-mode[%s] extra %s" % (tag, x.replace(v.trait["path"], "Trait")),
                   "`%s` has the requirement `%s`, which is neither the fixed `Sync + 'static` nor the provider bound"
                   % (imp["path"], x), where=exp.label(),
                   data={"actual": sorted(actual), "expected": sorted(expected), "config": cfg})
    return v


def check_inversion_traits(report, crate, exp, v, cfg):
    """C07: shape of the generated TraitImpl<T> / Selector<T> traits and the bounds of the front impl."""
    key0 = exp.ident()
    if v.trait is None or v.impl_trait is None or len(v.impls) != 1:
        return
    imp = v.impls[0]
    actual = pred_set(imp["predicates"]["own"])
    names = [g["name"] for g in v.trait["generics"]["own"] if g["kind"] != "lifetime" and g["name"] != "Self"]
    fixed = {"EntraitT: core::marker::Sync", "EntraitT: 'static"}
    tolerated = {"EntraitT: core::marker::Send"}
    ipath = v.impl_trait["path"]
    if v.kind == "trait":
        if v.selector is None:
            report.add("R-SHAPE", key0 + " selector", "selector trait `%s` was not generated" % v.selector_name, where=exp.label())
            return
        providers = [{"EntraitT: %s<EntraitT>" % v.selector["path"]}]
    else:
        head = "core::convert::AsRef" if v.kind == "asref" else "core::borrow::Borrow"
        providers = [{"EntraitT: %s<%s>" % (head, _dyn_s(ipath, ["EntraitT"] + names))},
                     {"EntraitT: %s<%s>" % (head, _dyn_s(ipath, ["EntraitT"] + names, ["core::marker::Sync"]))}]
    prov = next((p for p in providers if p <= actual), None)
    report.count("impls_compared")
    if prov is None:
        report.add("R-PRED", key0 + " provider", "front impl `%s` lacks the provider bound (one of %s); has %s"
                   % (imp["path"], [sorted(p) for p in providers], sorted(actual)), where=exp.label())
    else:
        own = set()
        for c in v.trait["predicates"]["own"]:
            if c["k"] == "trait" and c["trait"] in IMPLICIT:
                continue
            if not mentions(c, lambda n: n.get("t") == "param" and n.get("name") == "Self"):
                own.add(clause_s(c))
        for m in sorted(fixed - actual):
            report.add("R-PRED", key0 + " missing " + m, "front impl lacks `%s`" % m, where=exp.label())
        for x in sorted(actual - fixed - prov - tolerated - own):
            report.add("R-PRED", key0 + " extra " + x, "front impl has the additional requirement `%s`" % x, where=exp.label())
    # TraitImpl<T>: same methods in the same order; `__impl: &Impl<T>` replaces / follows the receiver
    tm = trait_methods(crate, v.trait)
    im = trait_methods(crate, v.impl_trait)
    if [last_seg(m["path"]) for m in tm] != [last_seg(m["path"]) for m in im]:
        report.add("R-SHAPE", key0 + " target-methods", "methods of `%s` %s differ from those of the trait %s"
                   % (last_seg(ipath), [last_seg(m["path"]) for m in im], [last_seg(m["path"]) for m in tm]), where=exp.label())
        return
    g = [x for x in v.impl_trait["generics"]["own"] if x["name"] != "Self"]
    if not g or g[0]["name"] != "EntraitT" or g[0]["kind"] != "type":
        report.add("R-SHAPE", key0 + " target-generics", "first generic parameter of `%s` is not the application type" % last_seg(ipath),
                   where=exp.label())
    for a, b in zip(tm, im):
        mname = last_seg(a["path"])
        ai = [ty_s(t) for t in a["sig"]["inputs"]]
        bi = [ty_s(t) for t in b["sig"]["inputs"]]
        implty = "&implementation::Impl<EntraitT>"
        want = ([implty] + ai[1:]) if v.kind == "trait" else ([ai[0], implty] + ai[1:])
        report.count("target_methods_compared")
        if bi != want:
            report.add("R-SHAPE", "%s :: %s target-inputs" % (key0, mname),
                       "`%s::%s` takes %s, expected %s" % (last_seg(ipath), mname, bi, want), where=exp.label())
        ao, bo = a["sig"]["output"], b["sig"]["output"]
        if not (ao.get("rpitit") or bo.get("rpitit")):
            if ty_s(ao) != ty_s(bo):
                report.add("R-SHAPE", "%s :: %s target-output" % (key0, mname),
                           "`%s::%s` returns %s, the trait method returns %s" % (last_seg(ipath), mname, ty_s(bo), ty_s(ao)), where=exp.label())
        else:
            sa = sorted(c["s"].split(": ", 1)[-1] for c in a.get("output_bounds", []))
            sb = sorted(c["s"].split(": ", 1)[-1] for c in b.get("output_bounds", []))
            if sa != sb:
                report.add("R-SHAPE", "%s :: %s target-output" % (key0, mname),
                           "future bounds differ: %s vs %s" % (sb, sa), where=exp.label())
    if v.impl_trait.get("vis") != v.trait.get("vis"):
        report.add("R-VIS", key0 + " target-vis", "delegation-target trait visibility %s differs from the trait's %s"
                   % (v.impl_trait.get("vis"), v.trait.get("vis")), where=exp.label())
    if v.kind == "trait" and v.selector is not None:
        items = [i for i in v.selector["items"]]
        ok = len(items) == 1 and items[0]["kind"] == "AssocTy" and items[0]["name"] == "Target"
        if ok:
            at = crate.get(items[0]["path"])
            bs = pred_set(at.get("bounds", [])) if at else set()
            sel_params = [x["name"] for x in v.selector["generics"]["own"] if x["name"] != "Self"]
            want = "<Self as %s<%s>>::Target: %s<%s>" % (v.selector["path"], ", ".join(sel_params), ipath, ", ".join(sel_params))
            ok = want in bs
            if not ok:
                report.add("R-SHAPE", key0 + " selector-bound", "`%s::Target` is bounded by %s, expected `%s`"
                           % (v.selector_name, sorted(bs), want), where=exp.label())
        else:
            report.add("R-SHAPE", key0 + " selector-items", "selector trait must have exactly one associated type `Target`", where=exp.label())
