"""Entry point: ./check <ID> <quick|thorough>"""
import importlib
import sys
import traceback

from .common import CheckError, log


def main(argv):
    if len(argv) < 2:
        log("usage: check <C01..C20> [quick|thorough]")
        return 2
    prop = argv[1].upper()
    tier = argv[2] if len(argv) > 2 else "quick"
    if tier not in ("quick", "thorough"):
        log("tier must be quick or thorough")
        return 2
    try:
        mod = importlib.import_module(".props.%s" % prop.lower(), package="vlib")
    except ImportError as e:
        log("no check for %s: %s" % (prop, e))
        return 2
    try:
        from .facts import prune_cache
        prune_cache()
    except Exception:
        pass
    try:
        return mod.run(tier)
    except CheckError as e:
        log("CHECK-ERROR property=%s: %s" % (prop, e))
        return 2
    except Exception:
        traceback.print_exc()
        log("CHECK-ERROR property=%s: internal error in the checker" % prop)
        return 2


if __name__ == "__main__":
    sys.exit(main(sys.argv))
