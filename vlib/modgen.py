"""Script-enumerated module bodies for module mode (C08, C02): small-scope exhaustive sequences over an
alphabet of module items. C08's risk is the macro's heuristic item splitter ("first brace group or
`;`", visibility keyword + `fn` lookahead); a hand-written module samples a handful of item orders.
Here every alphabet element appears between two visible functions (singles), and — by tier — every
ordered pair of elements appears adjacent. The oracle stays rustc's own item tree (which Fn items are
children of the module and have a written visibility); the generator's own expectation is
cross-checked against it, and a disagreement is a generator bug (check error), not a finding."""
import os
import re
import shutil

from .common import CACHE, REPO, VERIF, CheckError

# Opaque elements: none of them may contribute a trait method. `{n}` makes names unique in a module.
OPAQUE = [
    ("unit_struct", "struct S{n};"),
    ("struct_fn_field", "pub struct S{n} { pub f: fn(u8) -> u8 }"),
    ("tuple_struct_fn", "pub struct S{n}(pub u8, pub fn() -> u8);"),
    ("struct_default_param", "pub struct S{n}<T = u32> { pub t: T }"),
    ("struct_fn_default", "pub struct S{n}<F: Fn() -> u8 = fn() -> u8>(pub F);"),
    ("enum", "pub enum E{n} { A, B(fn() -> u8), C { x: u8 } }"),
    ("enum_defaults", "pub enum E{n}<L = u8, R = L> { L(L), R(R) }"),
    ("union", "pub union U{n} { pub a: u8 }"),
    ("const", "const C{n}: u8 = 1;"),
    ("const_block_fn", "pub const C{n}: u8 = { pub fn inner() {} 2 };"),
    ("const_tuple", "pub(crate) const C{n}: (u8, u8) = (1, 2);"),
    ("const_struct_lit", "pub struct P{n} { pub x: u8 } pub const C{n}: P{n} = P{n} { x: 1 };"),
    ("const_if", "pub const C{n}: u8 = if true { 1 } else { 2 };"),
    ("const_closure", "pub const C{n}: fn(u8) -> u8 = |a| a;"),
    ("const_underscore", "const _: () = { assert!(true); };"),
    ("static_fn", "pub static ST{n}: fn(u8) -> u8 = { fn id(a: u8) -> u8 { a } id };"),
    ("static_mut", "static mut SM{n}: u8 = 0;"),
    ("vis_static_fn", "pub(crate) static ST{n}: fn() = { fn f() {} f };"),
    ("type_fn", "pub type A{n} = fn(u8) -> u8;"),
    ("type_default", "pub(super) type A{n}<T = u8> = Option<T>;"),
    ("type_dyn_fn", "type A{n} = dyn Fn() -> u8;"),
    ("use", "use core::fmt::Debug as Dbg{n};"),
    ("use_braces", "pub use core::{fmt::Display as Disp{n}};"),
    ("extern_crate", "extern crate core as core{n};"),
    ("impl_inherent", "pub struct I{n}; impl I{n} { pub fn in_impl(&self) -> u8 { 1 } }"),
    ("impl_where_eq", "pub trait Bl{n} {} impl<T: ?Sized> Bl{n} for T where T: Iterator<Item = u8> {}"),
    ("impl_for_fn_ptr", "pub trait FT{n} {} impl FT{n} for fn() -> u8 {}"),
    ("unsafe_impl", "pub struct X{n}(*const u8); unsafe impl Send for X{n} {}"),
    ("trait", "pub trait Tr{n} { fn in_trait(&self); fn provided(&self) -> u8 { 1 } }"),
    ("trait_default_param", "pub trait Tr{n}<Rhs = Self> { fn cmp_to(&self, rhs: &Rhs) -> bool; }"),
    ("unsafe_trait", "pub unsafe trait UT{n} {}"),
    ("nested_mod", "pub mod nested{n} { pub fn in_nested<D>(deps: &D) {} }"),
    ("private_nested_mod", "mod private_nested{n} {}"),
    ("extern_block", "extern \"C\" { pub fn ext{n}(a: u8) -> u8; }"),
    ("macro_rules", "macro_rules! mac{n} { () => { pub fn from_macro{n}() {} }; }"),
    ("macro_invocation_braces", "macro_rules! inv{n} { () => {}; } inv{n}!{}"),
    ("macro_invocation_parens", "macro_rules! inw{n} { () => {}; } inw{n}!();"),
    ("private_fn", "fn p{n}<D>(deps: &D) {}"),
    ("private_async_fn", "async fn p{n}() {}"),
    ("private_unsafe_fn", "unsafe fn p{n}() {}"),
    ("private_const_fn", "const fn p{n}() -> u8 { 1 }"),
    ("private_extern_fn", "extern \"C\" fn p{n}() {}"),
    ("private_fn_impl_trait_eq", "fn p{n}() -> impl Iterator<Item = u8> { core::iter::empty() }"),
    ("private_fn_where_eq", "fn p{n}<T>(t: T) where T: Iterator<Item = u8> {}"),
    ("private_fn_generic_eq", "fn p{n}<I: Iterator<Item = u8>>(i: I) -> usize { i.count() }"),
    ("cfg_bodyless_fn", "#[cfg(any())] pub fn bodyless{n}();"),
    ("cfg_gone_struct", "#[cfg(any())] struct Gone{n} { x: NonExistent{n} }"),
    ("derive_struct", "#[doc = \"doc\"] #[derive(Clone, Debug)] pub struct D{n} { pub a: u8 }"),
    ("vis_struct", "pub(crate) struct PC{n};"),
    ("vis_in_struct", "pub(in crate) struct PI{n};"),
]

# Visible functions: each must become exactly one method, in order.
VISIBLE = [
    ("pub_fn", "pub fn v{n}<D>(deps: &D) -> u8 { 0 }"),
    ("pub_crate_fn", "pub(crate) fn v{n}<D>(deps: &D) -> u8 { 0 }"),
    ("pub_super_fn", "pub(super) fn v{n}<D>(deps: &D) -> u8 { 0 }"),
    ("pub_self_fn", "pub(self) fn v{n}<D>(deps: &D) -> u8 { 0 }"),
    ("pub_in_fn", "pub(in crate) fn v{n}<D>(deps: &D) -> u8 { 0 }"),
    ("pub_async_fn", "pub async fn v{n}<D>(deps: &D) -> u8 { 0 }"),
    ("pub_unsafe_fn", "pub unsafe fn v{n}<D>(deps: &D) -> u8 { 0 }"),
    ("pub_const_fn", "pub const fn v{n}<D>(deps: &D) -> u8 { 0 }"),
    ("pub_extern_fn", "pub extern \"C\" fn v{n}<D>(deps: &D) -> u8 { 0 }"),
    ("pub_async_unsafe_fn", "pub async unsafe fn v{n}<D>(deps: &D) -> u8 { 0 }"),
    ("pub_const_unsafe_fn", "pub const unsafe fn v{n}<D>(deps: &D) -> u8 { 0 }"),
    ("pub_unsafe_extern_fn", "pub unsafe extern \"C\" fn v{n}<D>(deps: &D) -> u8 { 0 }"),
    ("pub_fn_attrs", "#[doc = \"doc\"] #[inline] pub fn v{n}<D>(deps: &D) -> u8 { 0 }"),
    ("pub_fn_impl_trait_eq", "pub fn v{n}<D>(deps: &D) -> impl Iterator<Item = u8> where D: Sized { core::iter::empty() }"),
    ("pub_fn_generic_eq", "pub fn v{n}<D, I{n}: Iterator<Item = u8>>(deps: &D, i: I{n}) -> usize { i.count() }"),
    ("pub_fn_impl_deps", "pub fn v{n}(deps: &impl core::any::Any) -> u8 { 0 }"),
]

# ---- impl-block mode: items of `#[entrait] impl TraitImpl for X { .. }`. Every fn (whatever its visibility)
# implements the trait method of the same name; everything else is re-emitted in the inherent impl only.
IMPL_OPAQUE = [
    ("assoc_const", "pub const C{n}: u8 = 1;"),
    ("assoc_const_private", "const C{n}: u8 = 1;"),
    ("assoc_const_block_fn", "const C{n}: fn() = { fn f() {} f };"),
    ("assoc_const_if", "pub(crate) const C{n}: u8 = if true { 1 } else { 2 };"),
    ("assoc_const_tuple", "const C{n}: (u8, fn() -> u8) = (1, { fn g() -> u8 { 1 } g });"),
    ("assoc_const_closure", "const C{n}: fn(u8) -> u8 = |a| a;"),
    ("cfg_bodyless_fn", "#[cfg(any())] fn bodyless{n}();"),
    ("cfg_bodyless_pub_fn", "#[cfg(any())] pub fn bodyless{n}() -> u8;"),
    ("cfg_gone_const", "#[cfg(any())] const G{n}: NonExistent = 1;"),
    ("macro_invocation", "impl_item_macro!{}"),
    ("macro_invocation_semi", "impl_item_macro!();"),
]
# (trait method declaration, fn in the block)
IMPL_FNS = [
    ("private_fn", "fn v{n}(&self) -> u8;", "fn v{n}<D>(deps: &D) -> u8 { 0 }"),
    ("pub_fn", "fn v{n}(&self) -> u8;", "pub fn v{n}<D>(deps: &D) -> u8 { 0 }"),
    ("pub_crate_fn", "fn v{n}(&self) -> u8;", "pub(crate) fn v{n}<D>(deps: &D) -> u8 { 0 }"),
    ("async_fn", "async fn v{n}(&self) -> u8;", "async fn v{n}<D>(deps: &D) -> u8 { 0 }"),
    ("pub_async_fn", "async fn v{n}(&self) -> u8;", "pub async fn v{n}<D>(deps: &D) -> u8 { 0 }"),
    ("fn_attrs", "fn v{n}(&self) -> u8;", "#[doc = \"doc\"] #[inline] pub fn v{n}<D>(deps: &D) -> u8 { 0 }"),
    ("fn_impl_deps", "fn v{n}(&self) -> u8;", "fn v{n}(deps: &impl core::any::Any) -> u8 { 0 }"),
    ("fn_generic_eq", "fn v{n}<I{n}: Iterator<Item = u8>>(&self, i: I{n}) -> usize;", "fn v{n}<D, I{n}: Iterator<Item = u8>>(deps: &D, i: I{n}) -> usize { i.count() }"),
    ("fn_where_eq", "fn v{n}(&self) -> u8;", "fn v{n}<D>(deps: &D) -> u8 where D: Sized { 0 }"),
    ("const_fn", "fn v{n}(&self) -> u8;", "pub const fn v{n}<D>(deps: &D) -> u8 { 0 }"),
    ("unsafe_fn", "unsafe fn v{n}(&self) -> u8;", "pub unsafe fn v{n}<D>(deps: &D) -> u8 { 0 }"),
]
IMPL_ALPHA = [("o", k, None, t) for k, t in IMPL_OPAQUE] + [("v", k, d, t) for k, d, t in IMPL_FNS]


def impl_sequences(tier):
    for e in IMPL_ALPHA:
        yield ("impl-single", e[1]), [e]
        yield ("impl-edge", e[1]), ["edge", e]
    for a in IMPL_ALPHA:
        for b in IMPL_ALPHA:
            if tier == "quick" and a[0] == b[0] == "v":
                continue
            yield ("impl-pair", a[1], b[1]), [a, b]


def render_impl(i, seq, static):
    decls, items, want = [], [], []
    edge = False
    if seq and seq[0] == "edge":
        edge, seq = True, seq[1:]
    if not edge:
        decls.append("fn first(&self) -> u8;")
        items.append("pub fn first<D>(deps: &D) -> u8 { 1 }")
        want.append("first")
    for n, (cls, k, decl, tmpl) in enumerate(seq):
        items.append(tmpl.replace("{n}", str(n)))
        if cls == "v":
            decls.append(decl.replace("{n}", str(n)))
            want.append("v%d" % n)
    if edge:
        cls, k, decl, tmpl = seq[0]
        decls.append("fn middle(&self) -> u8;")
        items.insert(1, "fn middle<D>(deps: &D) -> u8 { 1 }")
        want.append("middle")
        items.append(tmpl.replace("{n}", "9"))
        if cls == "v":
            decls.append(decl.replace("{n}", "9"))
            want.append("v9")
    else:
        decls.append("fn last(&self) -> u8;")
        items.append("fn last<D>(deps: &D) -> u8 { 9 }")
        want.append("last")
    sel = "delegate_by = DelegateT%d" % i if static else "delegate_by = ref"
    lines = ["pub mod b%d {" % i,
             "use entrait::*; macro_rules! impl_item_macro { () => {}; }",
             "#[entrait(TImpl%d, %s)]" % (i, sel),
             "pub trait T%d { %s }" % (i, " ".join(decls)),
             "pub struct X;",
             "#[entrait]" if static else "#[entrait(ref)]",
             "impl TImpl%d for X { %s }" % (i, " ".join(items)),
             "}"]
    return lines, want


ALPHA = [("o", k, t) for k, t in OPAQUE] + [("v", k, t) for k, t in VISIBLE]
PER_FILE = 100


def sequences(tier):
    """Yield (key, [alphabet elements])."""
    for e in ALPHA:
        yield ("single", e[1]), [e]
    # an element at the very start / very end of the module
    for e in ALPHA:
        yield ("edge", e[1]), ["edge", e]
    if tier == "quick":
        # every opaque element directly followed by / directly following each of four visible kinds
        for o in ALPHA:
            if o[0] != "o":
                continue
            for v in ALPHA:
                if v[0] == "v" and v[1] in ("pub_fn", "pub_crate_fn", "pub_async_fn", "pub_unsafe_extern_fn"):
                    yield ("pair", o[1], v[1]), [o, v]
                    yield ("pair", v[1], o[1]), [v, o]
    else:
        for a in ALPHA:
            for b in ALPHA:
                yield ("pair", a[1], b[1]), [a, b]


def render(i, seq):
    """One entraited module (on one line) and the method names it must have."""
    items = []
    want = []
    edge = False
    if seq and seq[0] == "edge":
        edge = True
        seq = seq[1:]
    if not edge:
        items.append("pub fn first<D>(deps: &D) -> u8 { 1 }")
        want.append("first")
    for n, (cls, k, tmpl) in enumerate(seq):
        items.append(tmpl.replace("{n}", str(n)))
        if cls == "v":
            want.append("v%d" % n)
    if edge:
        # the same element again at the very end
        cls, k, tmpl = seq[0]
        items.insert(1, "pub fn middle<D>(deps: &D) -> u8 { 1 }")
        want.append("middle")
        items.append(tmpl.replace("{n}", "9"))
        if cls == "v":
            want.append("v9")
    else:
        items.append("pub fn last<D>(deps: &D) -> u8 { 9 }")
        want.append("last")
    return "pub mod m%d { %s }" % (i, " ".join(items)), want


def generate(tier):
    d = os.path.join(CACHE, "gen", "modseq_%s" % tier)
    shutil.rmtree(d, ignore_errors=True)
    os.makedirs(os.path.join(d, "src"))
    with open(os.path.join(d, "Cargo.toml"), "w") as f:
        f.write('[package]\nname = "wit_modseq"\nversion = "0.0.0"\nedition = "2021"\n\n[features]\nunimock = ["entrait/unimock"]\n\n'
                '[dependencies]\nentrait = { path = "%s" }\n\n[workspace]\n' % REPO)
    shutil.copy(os.path.join(VERIF, "witness", "pos", "Cargo.lock"), os.path.join(d, "Cargo.lock"))
    seqs = list(sequences(tier))
    where = {}   # (file, line) -> module index
    keys = {}
    wants = {}
    files = []
    for start in range(0, len(seqs), PER_FILE):
        fname = "seq_%03d" % (start // PER_FILE)
        files.append(fname)
        lines = ["//! props: C08 C02 C15", "//! generated by vlib/modgen.py", "use entrait::*;"]
        for i in range(start, min(start + PER_FILE, len(seqs))):
            key, seq = seqs[i]
            text, want = render(i, seq)
            lines.append("#[cfg(not(skip_m%d))]" % i)
            lines.append("#[entrait(pub T%d)]" % i)
            lines.append(text)
            for ln in (len(lines) - 2, len(lines) - 1, len(lines)):
                where[("src/%s.rs" % fname, ln)] = i
            keys[i] = key
            wants[i] = want
        with open(os.path.join(d, "src", fname + ".rs"), "w") as f:
            f.write("\n".join(lines) + "\n")
    iseqs = list(impl_sequences(tier))
    base = len(seqs)
    for start in range(0, len(iseqs), PER_FILE):
        fname = "iseq_%03d" % (start // PER_FILE)
        files.append(fname)
        lines = ["//! props: C07 C02 C15", "//! generated by vlib/modgen.py"]
        for j in range(start, min(start + PER_FILE, len(iseqs))):
            i = base + j
            key, seq = iseqs[j]
            # async / generic methods make a trait dyn-incompatible: those sequences use static delegation
            needs_static = any(e != "edge" and e[1] in ("async_fn", "pub_async_fn", "fn_generic_eq") for e in seq)
            mlines, want = render_impl(i, seq, static=(needs_static or j % 2 == 0))
            lines.append("#[cfg(not(skip_m%d))]" % i)
            first = len(lines)
            lines.extend(mlines)
            for ln in range(first, len(lines) + 1):
                where[("src/%s.rs" % fname, ln)] = i
            keys[i] = key
            wants[i] = want
        with open(os.path.join(d, "src", fname + ".rs"), "w") as f:
            f.write("\n".join(lines) + "\n")
    with open(os.path.join(d, "src", "lib.rs"), "w") as f:
        f.write("#![allow(dead_code, unused_variables, unused_imports, unused_mut, non_camel_case_types, non_upper_case_globals, "
                "unused_macros, unused_unsafe, improper_ctypes_definitions, static_mut_refs, clippy::all)]\n")
        for fn in files:
            f.write("#[cfg(not(skip_%s))]\npub mod %s;\n" % (fn, fn))
    return d, where, keys, wants


def load_modseq(report, config, tier):
    from .corpus import CONFIGS, Loaded
    from .facts import build_with_skips
    from .model import Crate
    d, where, keys, wants = generate(tier)
    features, cfgs = CONFIGS[config]

    def attribute(span):
        i = where.get((span["file"], span["line"]))
        return "m%d" % i if i is not None else None
    facts, failures, wall = build_with_skips(d, "wit_modseq", features=features, cfgs=cfgs, attribute=attribute, max_rounds=8)
    c = Crate(facts, d)
    report.count("module_sequences", len(keys))
    for mod, diags in sorted(failures.items()):
        i = int(mod[1:])
        key = "/".join(keys.get(i, ("?",)))
        dg = diags[0]
        msg = "module item sequence %s does not expand to compiling code [%s]: %s %s" % (key, config, dg.get("code") or "", dg["message"][:150])
        parse_or_panic = dg.get("code") is None and any(
            re.search(r"panicked|^expected |^unexpected |macro expansion ignores|^unknown start of token|^mismatched closing|^unclosed delimiter", x or "")
            for x in [dg["message"]] + list(dg.get("children") or []))
        owners = ("C07", "C02") if key.startswith("impl-") else ("C08", "C02")
        if report.prop in owners or (report.prop == "C15" and parse_or_panic):
            report.add("W-MODSEQ", "modseq %s [%s] compile" % (key, config), msg)
        else:
            report.note("skipped (belongs to %s,C15): %s" % (",".join(owners), msg))
    c.modseq_keys = keys
    c.modseq_wants = wants
    ld = Loaded("modseq_%s" % tier, config, c, failures, wall)
    ld.dir = d
    return ld
