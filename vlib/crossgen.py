"""Script-enumerated cross product {input mode} x {sync/async/mixed} x {option subset}: one small module per
point, analysed by the same uniform rules as the hand-written corpus. It exists to cover *combinations*
(an option on an unusual mode, async with a rare deps kind, …) that no hand-written witness happens to hit."""
import itertools
import os
import shutil

from .common import CACHE, REPO, VERIF

HEADER = """#![allow(dead_code, unused_variables, unused_mut, unused_imports, non_snake_case, non_camel_case_types)]
pub trait Dep { fn dep(&self) -> u8; }
#[derive(Clone)]
pub struct App(pub u8);
impl Dep for App { fn dep(&self) -> u8 { self.0 } }
impl<T: Sync + 'static> Dep for entrait::Impl<T> { fn dep(&self) -> u8 { 0 } }
#[cfg(feature = "unimock")]
impl Dep for entrait::__unimock::Unimock { fn dep(&self) -> u8 { 0 } }
"""

FN_OPTS = ["?Send", "mockall", "mock_api = TMock", "export", "unimock = false"]
TRAIT_OPTS = ["?Send", "mockall", "mock_api = TMock", "unimock = false"]
VIS = ["", "pub ", "pub(crate) "]


def subsets(opts, maxk):
    for k in range(0, maxk + 1):
        for sub in itertools.combinations(opts, k):
            if "unimock = false" in sub and "mock_api = TMock" in sub and k > 2:
                continue
            yield sub


def fn_body(asyncness, deps_expr):
    return "{ a - b }"


def points(maxk):
    i = 0
    # ---- fn mode
    for deps_kind, gen, dparam in [("generic", "<D: Dep>", "deps: &D, "), ("impl", "", "deps: &impl Dep, "), ("concrete", "", "deps: &App, "),
                                  ("nodeps", "", ""), ("byvalue", "<D: Dep + Clone>", "deps: D, ")]:
        for asy in ("", "async "):
            for vis in VIS:
                for sub in subsets(FN_OPTS, maxk):
                    if "?Send" in sub and not asy:
                        continue
                    opts = list(sub) + (["no_deps"] if deps_kind == "nodeps" else [])
                    attr = "#[entrait(%sT%s)]" % (vis, "".join(", " + o for o in opts))
                    item = "%s %sfn f%s(%sa: u8, b: u8) -> u8 { a - b }" % (attr, asy, gen, dparam)
                    yield i, ("fn", deps_kind, asy.strip() or "sync", vis.strip() or "priv") + tuple(sub), item
                    i += 1
    # ---- mod mode
    for shape in ("sync", "async", "mixed"):
        for vis in VIS:
            for sub in subsets(FN_OPTS, maxk):
                if "?Send" in sub and shape == "sync":
                    continue
                fns = {"sync": "pub fn f<D: Dep>(deps: &D, a: u8, b: u8) -> u8 { a - b } pub fn g<D>(deps: &D, a: u8, b: u8) -> u8 { b - a }",
                       "async": "pub async fn f<D: Dep>(deps: &D, a: u8, b: u8) -> u8 { a - b } pub async fn g(deps: &impl Dep, a: u8, b: u8) -> u8 { b - a }",
                       "mixed": "pub fn f<D: Dep>(deps: &D, a: u8, b: u8) -> u8 { a - b } pub async fn g<D>(deps: &D, a: u8, b: u8) -> u8 { b - a } fn private<D>(deps: &D) {}"}[shape]
                attr = "#[entrait(%sT%s)]" % (vis, "".join(", " + o for o in sub))
                item = "%s pub mod inner { use super::super::*; %s }" % (attr, fns)
                yield i, ("mod", shape, vis.strip() or "priv") + tuple(sub), item
                i += 1
    # ---- trait mode (no target)
    for sel in ("", "delegate_by = Self", "delegate_by = ref", "delegate_by = Borrow"):
        for shape in ("sync", "async", "mixed", "async_trait"):
            if shape in ("async", "mixed") and sel in ("delegate_by = ref", "delegate_by = Borrow"):
                continue  # a native async trait is not dyn-compatible (Rust's rule)
            for sub in subsets(TRAIT_OPTS, maxk):
                if "?Send" in sub and shape in ("sync", "async_trait"):
                    continue
                methods = {"sync": "fn f(&self, a: u8, b: u8) -> u8; fn g(&self, a: u8, b: u8) -> u8;",
                           "async": "async fn f(&self, a: u8, b: u8) -> u8; async fn g(&self, a: u8, b: u8) -> u8;",
                           "mixed": "fn f(&self, a: u8, b: u8) -> u8; async fn g(&self, a: u8, b: u8) -> u8;",
                           "async_trait": "async fn f(&self, a: u8, b: u8) -> u8; fn g(&self, a: u8, b: u8) -> u8;"}[shape]
                opts = ([sel] if sel else []) + list(sub)
                attr = "#[entrait(%s)]" % ", ".join(opts) if opts else "#[entrait]"
                at = " #[async_trait::async_trait]" if shape == "async_trait" else ""
                item = "%s%s pub trait Tr { %s }" % (attr, at, methods)
                yield i, ("trait", sel or "default", shape) + tuple(sub), item
                i += 1
    # ---- inversion (trait with target + impl block)
    for kind in ("static", "ref", "Borrow"):
        for shape in ("sync", "async", "mixed", "async_trait"):
            if kind != "static" and shape in ("async", "mixed"):
                continue
            if kind == "Borrow" and shape == "async_trait":
                pass
            for sub in subsets(["?Send", "mockall", "unimock = false"], min(maxk, 2)):
                if "?Send" in sub and shape in ("sync", "async_trait"):
                    continue
                methods = {"sync": "fn f(&self, a: u8, b: u8) -> u8; fn g(&self, a: u8, b: u8) -> u8;",
                           "async": "async fn f(&self, a: u8, b: u8) -> u8; async fn g(&self, a: u8, b: u8) -> u8;",
                           "mixed": "fn f(&self, a: u8, b: u8) -> u8; async fn g(&self, a: u8, b: u8) -> u8;",
                           "async_trait": "async fn f(&self, a: u8, b: u8) -> u8; fn g(&self, a: u8, b: u8) -> u8;"}[shape]
                impls = {"sync": "fn f<D: Dep>(deps: &D, a: u8, b: u8) -> u8 { a - b } fn g<D>(deps: &D, a: u8, b: u8) -> u8 { b - a }",
                         "async": "async fn f<D: Dep>(deps: &D, a: u8, b: u8) -> u8 { a - b } async fn g<D>(deps: &D, a: u8, b: u8) -> u8 { b - a }",
                         "mixed": "fn f<D: Dep>(deps: &D, a: u8, b: u8) -> u8 { a - b } async fn g<D>(deps: &D, a: u8, b: u8) -> u8 { b - a }",
                         "async_trait": "async fn f<D: Dep>(deps: &D, a: u8, b: u8) -> u8 { a - b } fn g<D>(deps: &D, a: u8, b: u8) -> u8 { b - a }"}[shape]
                db = {"static": "delegate_by = DelegateTr", "ref": "delegate_by = ref", "Borrow": "delegate_by = Borrow"}[kind]
                opts = ["TrImpl", db] + list(sub)
                at = " #[async_trait::async_trait]" if shape == "async_trait" else ""
                block_attr = "#[entrait]" if kind == "static" else "#[entrait(ref)]"
                item = "#[entrait(%s)]%s pub trait Tr { %s } pub struct Target; %s%s impl TrImpl for Target { %s }" % (
                    ", ".join(opts), at, methods, block_attr, at, impls)
                if kind == "Borrow":
                    # there is no `#[entrait(Borrow)]` impl-block form: the target trait is implemented by hand elsewhere
                    item = "#[entrait(%s)]%s pub trait Tr { %s }" % (", ".join(opts), at, methods)
                yield i, ("inversion", kind, shape) + tuple(sub), item
                i += 1


def generate(name, maxk, stride=1):
    d = os.path.join(CACHE, "gen", name)
    os.makedirs(os.path.join(d, "src"), exist_ok=True)
    stub = os.path.join(VERIF, "witness", "stubs", "mockall")
    with open(os.path.join(d, "Cargo.toml"), "w") as f:
        f.write('[package]\nname = "wit_cross"\nversion = "0.0.0"\nedition = "2021"\n\n[features]\nunimock = ["entrait/unimock"]\n\n'
                '[dependencies]\nentrait = { path = "%s" }\nmockall = { path = "%s" }\nasync-trait = "0.1"\n\n[workspace]\n' % (REPO, stub))
    shutil.copy(os.path.join(VERIF, "witness", "pos", "Cargo.lock"), os.path.join(d, "Cargo.lock"))
    lines = HEADER.rstrip("\n").split("\n")
    where = {}
    keys = {}
    for k, (i, key, item) in enumerate(points(maxk)):
        if k % stride:
            continue
        needs_uni = "mock_api = TMock" in key and False
        lines.append("#[cfg(not(skip_x%d))] pub mod x%d { use super::*; use entrait::*; %s }" % (i, i, item))
        where[len(lines)] = i
        keys[i] = key
    # ---- hygiene variants: the same items stamped out by a macro_rules! macro whose ARGUMENTS supply the trait
    # name (fn / mod mode), the function / method names and the first parameter's name, while `self`, the deps
    # parameter, the second parameter and every other token come from the macro BODY. Identifiers of the two
    # origins carry different hygiene contexts; only resolution tells them apart (rules resolve, they do not spell).
    import re
    for k, (i, key, item) in enumerate(points(maxk)):
        # (mock_api is kept: unimock derives its un-mock arm from the trait declaration's parameter names, which must
        #  agree in hygiene with the arguments entrait lists in `unmock_with`)
        if any(o not in ("?Send", "mock_api = TMock") for o in key if o in FN_OPTS + TRAIT_OPTS + ["unimock = false"]):
            continue
        if "async_trait" in key:
            continue  # async_trait's own expansion names `self` from its call site
        body = item
        if key[0] in ("fn", "mod"):
            body = re.sub(r"\bT\b", "$t", body)
        body = re.sub(r"\bf\b", "$f", body)
        body = re.sub(r"\bg\b", "$g", body)
        body = re.sub(r"\ba\b", "$a", body)
        hi = 100000 + i
        lines.append("#[cfg(not(skip_x%d))] pub mod x%d { use super::*; use entrait::*; "
                     "macro_rules! stamp { ($t:ident, $f:ident, $g:ident, $a:ident, $ti:ident) => { %s }; } stamp!(T, f, g, a, TrImpl); }" % (hi, hi, body))
        where[len(lines)] = hi
        keys[hi] = ("hygiene",) + key
        # second flavour: ONLY the name of the deps parameter comes from an argument (its `&`, its type and everything
        # else from the macro body)
        if re.search(r"\bdeps\b", item):
            body2 = re.sub(r"\bdeps\b", "$d", item)
            hi2 = 200000 + i
            lines.append("#[cfg(not(skip_x%d))] pub mod x%d { use super::*; use entrait::*; "
                         "macro_rules! stamp { ($d:ident) => { %s }; } stamp!(deps); }" % (hi2, hi2, body2))
            where[len(lines)] = hi2
            keys[hi2] = ("hygiene-deps",) + key
    with open(os.path.join(d, "src", "lib.rs"), "w") as f:
        f.write("\n".join(lines) + "\n")
    return d, where, keys


_loaded = {}


def load_cross(report, config, tier):
    """Compile the cross corpus in a configuration; failing points are findings of the calling property."""
    import re
    from .corpus import CONFIGS, Loaded
    from .facts import build_with_skips
    from .model import Crate
    maxk = 1 if tier == "quick" else 2
    stride = 1
    name = "cross_%s" % tier
    d, where, keys = generate(name, maxk, stride)
    features, cfgs = CONFIGS[config]

    def attribute(span, where=where):
        i = where.get(span["line"])
        return "x%d" % i if i is not None else None
    facts, failures, wall = build_with_skips(d, "wit_cross", features=features, cfgs=cfgs, attribute=attribute, max_rounds=6)
    c = Crate(facts, d)
    report.count("cross_points", len(keys))
    for mod, diags in sorted(failures.items()):
        i = int(mod[1:])
        key = "/".join(keys.get(i, ("?",)))
        dg = diags[0]
        kt = keys.get(i, ("?",))
        if kt[0] in ("hygiene", "hygiene-deps"):
            kt = kt[1:]
        props = {"fn": {"C01", "C03", "C04"}, "mod": {"C01", "C08", "C04"}, "trait": {"C06"}, "inversion": {"C07"}}.get(kt[0], set())
        props = set(props)
        if any(x in kt for x in ("async", "mixed", "async_trait", "?Send")):
            props.add("C12")
        if "concrete" in kt:
            props.add("C05")
        if "mock_api = TMock" in kt:
            props.add("C11")
        msg = "combination %s does not expand to compiling code [%s]: %s %s" % (key, config, dg.get("code") or "", dg["message"][:150])
        if report.prop in props:
            report.add("W-CROSS", "cross %s [%s] compile" % (key, config), msg)
        else:
            report.note("skipped (belongs to %s): %s" % (",".join(sorted(props)), msg))
    # the same corpus under the default (stable) toolchain, the one users build with (plain configuration only)
    if config == "plain":
        from .facts import stable_failures
        sf = stable_failures(d, "wit_cross", features=features, cfgs=cfgs, attribute=attribute)
        report.count("cross_points_stable_toolchain", len(keys))
        for mod, diags in sorted(sf.items()):
            if mod in failures:
                continue
            i = int(mod[1:])
            kt = keys.get(i, ("?",))
            key = "/".join(kt)
            dg = diags[0]
            if kt[0] in ("hygiene", "hygiene-deps"):
                kt = kt[1:]
            props = set({"fn": {"C01", "C03", "C04"}, "mod": {"C01", "C08", "C04"}, "trait": {"C06"}, "inversion": {"C07"}}.get(kt[0], set()))
            if any(x in kt for x in ("async", "mixed", "async_trait", "?Send")):
                props.add("C12")
            if "concrete" in kt:
                props.add("C05")
            if "mock_api = TMock" in kt:
                props.add("C11")
            msg = "combination %s does not expand to compiling code on the default (stable) toolchain: %s %s" % (
                key, dg.get("code") or "", dg["message"][:150])
            if report.prop in props:
                report.add("W-CROSS", "cross %s [stable] compile" % key, msg)
            else:
                report.note("skipped (belongs to %s): %s" % (",".join(sorted(props)), msg))
    c.cross_keys = keys
    return Loaded(name, config, c, failures, wall)
