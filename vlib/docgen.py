"""Documentation corpus: every ```rust code block of /repo/src/lib.rs (the crate documentation, which
also is the README) becomes one module of a generated crate. The repository builds with
`doctest = false`, so its test suite never compiles these examples — but they are what users copy.
The crate is type-checked under the driver (feature unimock, cfg test) and handed to the uniform
rules as one more thorough-tier corpus. A block that does not compile *as a module* (inner
attributes, macro_rules ordering, …) is skipped with a note: the conversion block -> module is not
faithful enough to turn such a failure into a finding. Nothing is executed."""
import os
import re
import shutil

from .common import CACHE, REPO, CheckError, log
from .facts import build_with_skips
from .model import Crate

SKIP_LANGS = ("no_compile", "ignore", "text", "compile_fail", "should_panic", "toml", "sh", "console", "no_run_skip")


def doc_blocks(path):
    """Yield (first line number, lang, code) for each fenced block in `//!` / `///` comments."""
    lines = open(path).read().split("\n")
    i = 0
    n = len(lines)
    while i < n:
        m = re.match(r"^\s*//[/!] ?```(.*)$", lines[i])
        if not m:
            i += 1
            continue
        lang = m.group(1).strip()
        start = i + 1
        body = []
        i += 1
        while i < n and not re.match(r"^\s*//[/!] ?```\s*$", lines[i]):
            mm = re.match(r"^\s*//[/!] ?(.*)$", lines[i])
            if mm is None:
                break
            body.append(mm.group(1))
            i += 1
        i += 1
        yield start, lang, body


def unhide(body):
    out = []
    for l in body:
        s = l.lstrip()
        if s == "#":
            out.append("")
        elif s.startswith("# "):
            out.append(s[2:])
        elif s.startswith("##"):
            out.append(s[1:])
        else:
            out.append(l)
    return out


def generate():
    src = os.path.join(REPO, "src", "lib.rs")
    dst = os.path.join(CACHE, "gen", "docs")
    shutil.rmtree(dst, ignore_errors=True)
    os.makedirs(os.path.join(dst, "src"))
    mods = []
    skipped = []
    for line, lang, body in doc_blocks(src):
        tags = [t.strip() for t in lang.split(",") if t.strip()]
        if any(t in SKIP_LANGS for t in tags) or (tags and "rust" not in tags and tags != ["no_run"]):
            skipped.append((line, lang))
            continue
        code = unhide(body)
        if not any("entrait" in l for l in code):
            skipped.append((line, "no entrait use"))
            continue
        if any(l.lstrip().startswith("#![") for l in code):
            skipped.append((line, "inner attribute"))
            continue
        name = "doc_l%04d" % line
        with open(os.path.join(dst, "src", name + ".rs"), "w") as f:
            f.write("//! documentation example of /repo/src/lib.rs line %d\n" % line)
            if any(re.match(r"\s*(pub\s+)?(async\s+)?fn\s+main\s*\(", l) for l in code):
                f.write("\n".join(code) + "\n")
            else:
                # like rustdoc: a block without `fn main` is the body of one
                f.write("fn __doc_main() {\n" + "\n".join(code) + "\n}\n")
        mods.append(name)
    with open(os.path.join(dst, "src", "lib.rs"), "w") as f:
        f.write("#![allow(dead_code, unused_variables, unused_imports, unused_mut, non_camel_case_types, clippy::all)]\n")
        for m in mods:
            f.write("#[cfg(not(skip_%s))]\npub mod %s;\n" % (m, m))
    with open(os.path.join(dst, "Cargo.toml"), "w") as f:
        f.write('[package]\nname = "wit_docs"\nversion = "0.0.0"\nedition = "2021"\n\n[lib]\npath = "src/lib.rs"\n\n'
                '[features]\nunimock = []\n\n[dependencies]\n'
                'entrait = { path = "/repo", features = ["unimock"] }\nunimock = "0.6.2"\nmockall = "0.12"\n'
                'async-trait = "0.1"\ntokio = { version = "1", features = ["macros", "rt"] }\nfeignhttp = "0.5"\n'
                'tracing = "0.1"\nimplementation = "0.1"\n\n[workspace]\n')
    shutil.copy(os.path.join(REPO, "Cargo.lock"), os.path.join(dst, "Cargo.lock"))
    return dst, mods, skipped


def load_repo_docs(report):
    from .corpus import Loaded
    dst, mods, skipped = generate()
    facts, failures, wall = build_with_skips(dst, "wit_docs", features=("unimock",), cfgs=("test",), quiet=True, max_rounds=8)
    c = Crate(facts, dst)
    ok = [m for m in mods if m not in failures]
    report.count("repo_doc_blocks_analysed", len(ok))
    report.count("repo_doc_expansions", len(c.expansions))
    for m, diags in sorted(failures.items()):
        report.note("documentation block %s not analysed (does not compile as a module): %s" % (m, diags[0]["message"][:120]))
    log("  corpus /repo/src/lib.rs doc blocks[unimock_test]: %d of %d blocks analysed, %d entrait expansions (%.1fs)"
        % (len(ok), len(mods), len(c.expansions), wall))
    return Loaded("docs", "unimock_test", c, failures, wall)
