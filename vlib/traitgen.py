"""Script-enumerated entraited traits (C06, C09, C18, C07 front half): header shapes x delegation
selectors x method shapes. Hand-written trait witnesses sample a few dozen combinations; here every
method shape appears alone and next to every other one, under every header shape and selector for
which Rust itself admits it (methods that make a trait dyn-incompatible only with static selection)."""
import os
import shutil

from .common import CACHE, REPO, VERIF

# (key, generics, supertraits, where clause, unsafe?, visibility)
HEADERS = [
    ("plain", "", "", "", "", "pub "),
    ("private", "", "", "", "", ""),
    ("pub_crate", "", "", "", "", "pub(crate) "),
    ("generic", "<G: Copy + 'static>", "", "", "", "pub "),
    ("lifetime_generic", "<'t, G: 'static>", "", "", "", "pub "),
    ("const_first", "<const N: usize, G: 'static>", "", "", "", "pub "),
    ("supertraits", "", ": Sync + 'static", "", "", "pub "),
    ("where_clause", "<G>", "", "where G: Clone + 'static", "", "pub "),
    ("where_self_only", "", "", "where Self: Sync + 'static", "", "pub "),
    ("where_mixed_self", "<G>", "", "where G: Clone + 'static, Self: Sync", "", "pub "),
    ("unsafe_trait", "", "", "", "unsafe ", "pub "),
    ("trait_attrs", "", "", "", "", "#[doc = \"trait doc\"] #[allow(unused_variables)] #[deprecated(note = \"d\")] pub "),
]

# (key, declaration, dyn-compatible?)
METHODS = [
    ("unit", "fn m{n}(&self);", True),
    ("two_args", "fn m{n}(&self, a: u8, b: u8) -> u8;", True),
    ("named_lifetime", "fn m{n}<'x>(&'x self, a: &'x u8) -> &'x u8;", True),
    ("elided_borrow", "fn m{n}(&self, a: &u8) -> &u8;", True),
    ("typed_receiver", "fn m{n}(self: &Self) -> u8;", True),
    ("wildcard_param", "fn m{n}(&self, _: u8, b: u8) -> u8;", True),
    ("param_named_like_method", "fn m{n}(&self, m{n}: u8) -> u8;", True),
    ("raw_ident_param", "fn m{n}(&self, r#type: u8) -> u8;", True),
    ("attrs", "#[doc = \"d\"] #[must_use] fn m{n}(&self) -> u8;", True),
    ("cfg_off", "#[cfg(any())] fn m{n}(&self) -> NonExistent{n};", True),
    ("cfg_off_assoc_fn", "#[cfg(any())] fn m{n}() -> NonExistent{n};", True),
    ("unsafe_fn", "unsafe fn m{n}(&self) -> u8;", True),
    ("where_sized", "fn m{n}(&self) -> u8 where Self: Sized;", False),
    ("dyn_arg", "fn m{n}(&self, f: &dyn Fn(u8) -> u8) -> u8;", True),
    ("fn_ptr_arg", "fn m{n}(&self, f: fn(u8) -> u8, t: (u8, [u8; 2])) -> u8;", True),
    ("generic_method", "fn m{n}<M{n}: Clone>(&self, g: M{n}) -> M{n};", False),
    ("generic_method_where", "fn m{n}<M{n}>(&self, g: M{n}) -> usize where M{n}: Iterator<Item = u8>;", False),
    ("const_generic_method", "fn m{n}<const K{n}: usize>(&self, a: [u8; K{n}]) -> usize;", False),
    ("type_and_const_generic_method", "fn m{n}<M{n}: From<u8>, const K{n}: usize>(&self, a: [u8; K{n}]) -> [M{n}; K{n}];", False),
    ("impl_trait_arg", "fn m{n}(&self, a: impl Clone) -> u8;", False),
    ("rpitit", "fn m{n}(&self) -> impl Iterator<Item = u8>;", False),
    ("rpitit_future", "fn m{n}(&self) -> impl core::future::Future<Output = u8>;", False),
    ("rpitit_future_send", "fn m{n}(&self, a: u8) -> impl core::future::Future<Output = u8> + Send;", False),
    ("async_fn", "async fn m{n}(&self, a: u8) -> u8;", False),
    ("async_borrow", "async fn m{n}<'x>(&'x self, a: &'x u8) -> &'x u8;", False),
    ("async_unit", "async fn m{n}(&self);", False),
]

SELECTORS = [("default", ""), ("ref", "delegate_by = ref"), ("borrow", "delegate_by = Borrow"),
             ("target", "TImpl{i}, delegate_by = DelegateT{i}"), ("target_ref", "TImpl{i}, delegate_by = ref")]
PER_FILE = 100


def points(tier):
    # every method alone under every header and selector
    for h in HEADERS:
        for s in SELECTORS:
            if s[0].startswith("target") and h[1]:
                continue  # known finding: generic trait + delegation target
            if h[0] == "lifetime_generic" and s[0] != "default":
                continue  # `dyn Tr<'t, G>` behind AsRef/Borrow: rustc rejects borrowing methods whoever writes the impl
            for m in METHODS:
                if not m[2] and s[0] in ("ref", "borrow", "target_ref"):
                    continue
                yield ("single", h[0], s[0], m[0]), h, s, [m]
    # adjacent pairs under the plain header
    hs = [HEADERS[0]] if tier == "quick" else [HEADERS[0], HEADERS[3], HEADERS[6]]
    for h in hs:
        for s in SELECTORS:
            if s[0].startswith("target") and h[1]:
                continue
            for a in METHODS:
                for b in METHODS:
                    if tier == "quick" and s[0] not in ("default", "ref"):
                        continue
                    if (not a[2] or not b[2]) and s[0] in ("ref", "borrow", "target_ref"):
                        continue
                    yield ("pair", h[0], s[0], a[0], b[0]), h, s, [a, b]


def render(i, h, s, ms):
    hk, gen, sup, wh, uns, vis = h
    decls = ["fn first(&self) -> u8;"]
    want = ["first"]
    for n, (mk, decl, _dyn) in enumerate(ms):
        decls.append(decl.replace("{n}", str(n)))
        if mk not in ("cfg_off", "cfg_off_assoc_fn"):
            want.append("m%d" % n)
    decls.append("fn last(&self) -> u8;")
    want.append("last")
    opts = [s[1].replace("{i}", str(i))] if s[1] else []
    opts.append("unimock = false")
    lines = ["pub mod t%d {" % i,
             "use entrait::*;",
             "#[entrait(%s)]" % ", ".join(opts),
             "%s%strait T%d%s%s %s { %s }" % (vis, uns, i, gen, sup, wh, " ".join(decls)),
             "}"]
    return lines, want


def generate(tier):
    d = os.path.join(CACHE, "gen", "traitseq_%s" % tier)
    shutil.rmtree(d, ignore_errors=True)
    os.makedirs(os.path.join(d, "src"))
    with open(os.path.join(d, "Cargo.toml"), "w") as f:
        f.write('[package]\nname = "wit_traitseq"\nversion = "0.0.0"\nedition = "2021"\n\n[features]\nunimock = ["entrait/unimock"]\n\n'
                '[dependencies]\nentrait = { path = "%s" }\n\n[workspace]\n' % REPO)
    shutil.copy(os.path.join(VERIF, "witness", "pos", "Cargo.lock"), os.path.join(d, "Cargo.lock"))
    pts = list(points(tier))
    where, keys, wants, files = {}, {}, {}, []
    for start in range(0, len(pts), PER_FILE):
        fname = "tseq_%03d" % (start // PER_FILE)
        files.append(fname)
        lines = ["//! props: C06 C09 C18 C07", "//! generated by vlib/traitgen.py"]
        for i in range(start, min(start + PER_FILE, len(pts))):
            key, h, s, ms = pts[i]
            mlines, want = render(i, h, s, ms)
            lines.append("#[cfg(not(skip_t%d))]" % i)
            first = len(lines)
            lines.extend(mlines)
            for ln in range(first, len(lines) + 1):
                where[("src/%s.rs" % fname, ln)] = i
            keys[i] = key
            wants[i] = want
        with open(os.path.join(d, "src", fname + ".rs"), "w") as f:
            f.write("\n".join(lines) + "\n")
    with open(os.path.join(d, "src", "lib.rs"), "w") as f:
        f.write("#![allow(dead_code, unused_variables, unused_imports, unused_mut, non_camel_case_types, non_upper_case_globals, "
                "unused_macros, unused_unsafe, improper_ctypes_definitions, clippy::all)]\n")
        for fn in files:
            f.write("#[cfg(not(skip_%s))]\npub mod %s;\n" % (fn, fn))
    return d, where, keys, wants


def load_traitseq(report, config, tier):
    from .corpus import CONFIGS, Loaded
    from .facts import build_with_skips
    from .model import Crate
    d, where, keys, wants = generate(tier)
    features, cfgs = CONFIGS[config]

    def attribute(span):
        i = where.get((span["file"], span["line"]))
        return "t%d" % i if i is not None else None
    facts, failures, wall = build_with_skips(d, "wit_traitseq", features=features, cfgs=cfgs, attribute=attribute, max_rounds=8)
    c = Crate(facts, d)
    report.count("trait_sequences", len(keys))
    for mod, diags in sorted(failures.items()):
        i = int(mod[1:])
        key = "/".join(keys.get(i, ("?",)))
        dg = diags[0]
        msg = "entraited trait %s does not expand to compiling code [%s]: %s %s" % (key, config, dg.get("code") or "", dg["message"][:150])
        owners = ("C07", "C09", "C18") if "target" in keys[i][2] else ("C06", "C09", "C18")
        if report.prop in owners:
            report.add("W-TRAITSEQ", "traitseq %s [%s] compile" % (key, config), msg)
        else:
            report.note("skipped (belongs to %s): %s" % (",".join(owners), msg))
    c.traitseq_keys = keys
    c.traitseq_wants = wants
    ld = Loaded("traitseq_%s" % tier, config, c, failures, wall)
    ld.dir = d
    return ld
