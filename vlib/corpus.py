"""Witness corpora: compile under the driver in a configuration, attribute compile failures to
witness modules, hand back a model.Crate."""
import os
import re

from .common import VERIF, CheckError, log
from .facts import build_with_skips
from .model import Crate

WIT = os.path.join(VERIF, "witness")

CONFIGS = {
    # name: (features, cfgs)
    "plain": ((), ()),
    "test": ((), ("test",)),
    "unimock": (("unimock",), ()),
    "unimock_test": (("unimock",), ("test",)),
}


def module_props(crate_dir, module):
    """Properties a witness module speaks for: its `cNN_` prefix and its `//! props:` header."""
    props = set()
    m = re.match(r"^c(\d\d)_", module)
    if m:
        props.add("C" + m.group(1))
    p = os.path.join(crate_dir, "src", module + ".rs")
    if not os.path.exists(p):
        p = os.path.join(crate_dir, "src", module, "mod.rs")
    try:
        with open(p) as f:
            for line in f:
                mm = re.match(r"^//!\s*props:\s*(.*)$", line)
                if mm:
                    props.update(mm.group(1).split())
                    break
    except OSError:
        pass
    return props


class Loaded:
    def __init__(self, name, config, crate, failures, wall):
        self.name = name
        self.config = config
        self.crate = crate
        self.failures = failures
        self.wall = wall


def load(report, crate, config="plain", crate_name=None, crate_dir=None):
    crate_dir = crate_dir or os.path.join(WIT, crate)
    crate_name = crate_name or ("wit_" + crate)
    features, cfgs = CONFIGS[config]
    facts, failures, wall = build_with_skips(crate_dir, crate_name, features=features, cfgs=cfgs)
    report.count("witness_crate_compiles", 1)
    c = Crate(facts, crate_dir)
    log("  corpus %s[%s]: %d defs, %d entrait expansions, %d module(s) failed to compile (%.1fs)"
        % (crate, config, len(c.defs), len(c.expansions), len(failures), wall))
    for mod, diags in sorted(failures.items()):
        props = module_props(crate_dir, mod)
        d = diags[0]
        msg = "witness module `%s` no longer compiles [%s]: %s %s" % (
            mod, config, d.get("code") or "", d["message"])
        if report.prop in props:
            where = None
            for s in d["spans"]:
                if s["primary"]:
                    where = "%s:%d" % (s["file"], s["line"])
            report.add("W-compile", "%s/%s" % (crate, mod), msg, where=where,
                       data={"diagnostics": [x["rendered"] for x in diags[:3]]})
        else:
            report.note("skipped (belongs to %s): %s" % (",".join(sorted(props)), msg))
    return Loaded(crate, config, c, failures, wall)


def load_kf(report, modules):
    """Known-finding corpus (witness/kf): `modules` maps a module name to the description of what it
    demonstrates. A module that fails to compile is reported under the exact key `kf/<module>` (which
    /verif/known_findings.jsonl may list); returns the set of modules that failed."""
    kf_dir = os.path.join(WIT, "kf")
    facts, failures, wall = build_with_skips(kf_dir, "wit_kf")
    for mod, what in sorted(modules.items()):
        report.count("known_finding_witnesses")
        if mod in failures:
            d = failures[mod][0]
            report.add("W-compile", "kf/%s %s" % (mod, d.get("code") or "error"), "%s: %s %s" % (what, d.get("code") or "", d["message"][:140]))
    return set(m for m in modules if m in failures)


def load_repo_tests(report):
    """Thorough tier: the repository's own integration-test crate (tests/it, ~110 entrait invocations, built
    in test mode with the unimock feature and the real mockall / async-trait / feignhttp) as an additional
    corpus for the uniform rules. It is only *type-checked* under the driver, never run."""
    from .common import REPO
    from .facts import run_driver
    facts, diags, wall = run_driver(REPO, "it", cargo_args=("-p", "entrait", "--test", "it", "--features", "unimock"), only="it")
    if facts is None:
        errs = [d for d in diags if d["level"] == "error"]
        raise CheckError("the repository's tests/it target does not compile: %s" % (errs[0]["rendered"] if errs else "?"))
    c = Crate(facts, REPO)
    report.count("repo_tests_expansions", len(c.expansions))
    log("  corpus /repo/tests/it[unimock_test]: %d defs, %d entrait expansions (%.1fs)" % (len(c.defs), len(c.expansions), wall))
    return Loaded("repo_tests", "unimock_test", c, {}, wall)


EXAMPLES = (("example_axum", "example-axum"), ("example_async_graphql", "example-async-graphql"))


def load_repo_examples(report):
    """Thorough tier: the repository's example applications (examples/axum, examples/async-graphql:
    workspace members using entrait with axum / async-graphql / tokio, built in test mode with the
    unimock feature) as further corpora for the uniform rules. Type-checked under the driver, never run."""
    from .common import REPO
    from .facts import run_driver
    out = []
    for crate_name, pkg in EXAMPLES:
        facts, diags, wall = run_driver(REPO, crate_name, cargo_args=("-p", pkg, "--tests"), only=crate_name)
        if facts is None:
            errs = [d for d in diags if d["level"] == "error"]
            raise CheckError("the repository's %s example does not compile: %s" % (pkg, errs[0]["rendered"] if errs else "?"))
        c = Crate(facts, REPO)  # spans are relative to the workspace root
        report.count("repo_example_expansions", len(c.expansions))
        log("  corpus /repo/examples/%s[unimock_test]: %d defs, %d entrait expansions (%.1fs)"
            % (pkg[len("example-"):], len(c.defs), len(c.expansions), wall))
        out.append(Loaded(pkg, "unimock_test", c, {}, wall))
    return out
