#!/bin/bash
# Build the verification tools offline from files on disk only.
set -e
cd "$(dirname "$0")"
export CARGO_NET_OFFLINE=true
(cd tools/edrv && cargo build --release --offline)
if [ -d tools/genlint ]; then (cd tools/genlint && cargo build --release --offline); fi
echo "setup ok"
