//! Witness helper: a foreign attribute macro that must see an item exactly once.
//! `#[once::once]` re-emits the item unchanged and adds `const ONCE_<name>: () = ();` next to it, where
//! <name> is the identifier following the first `fn` / `trait` / `mod` keyword (or `impl`). If entrait
//! copied the attribute onto something it generates, a second marker const would appear.
extern crate proc_macro;
use proc_macro::{TokenStream, TokenTree};

#[proc_macro_attribute]
pub fn once(_attr: TokenStream, item: TokenStream) -> TokenStream {
    let mut name = None;
    let mut prev_kw = false;
    for tt in item.clone() {
        if let TokenTree::Ident(id) = &tt {
            let s = id.to_string();
            if prev_kw {
                name = Some(s);
                break;
            }
            if s == "impl" {
                name = Some("impl".to_string());
                break;
            }
            prev_kw = s == "fn" || s == "trait" || s == "mod";
        }
    }
    let mut out = item;
    let marker: TokenStream = format!(
        "#[allow(dead_code, non_upper_case_globals)] pub const ONCE_{}: () = ();",
        name.unwrap_or_else(|| "unknown".to_string())
    )
    .parse()
    .unwrap();
    out.extend(marker);
    out
}

/// `#[once::returns(expr)] fn f(..) -> T;` supplies the body of a body-less function declaration:
/// the trailing `;` is replaced by `{ expr }`. (A declaration without a body is syntactically valid
/// input to attribute macros; entrait must pass it through untouched.)
#[proc_macro_attribute]
pub fn returns(attr: TokenStream, item: TokenStream) -> TokenStream {
    let mut tts: Vec<TokenTree> = item.into_iter().collect();
    match tts.last() {
        Some(TokenTree::Punct(p)) if p.as_char() == ';' => {
            tts.pop();
        }
        _ => panic!("#[returns] expects a function declaration ending in `;`"),
    }
    tts.push(TokenTree::Group(proc_macro::Group::new(proc_macro::Delimiter::Brace, attr)));
    tts.into_iter().collect()
}
