//! Positive controls for the generator-tier (G-mir) rules: every function below contains exactly the
//! construct a rule must flag. The checks compile this crate with the driver on every run and error
//! out if a control is *not* flagged (a rule that matches nothing passes vacuously forever).
#![allow(dead_code)]
use std::collections::{HashMap, HashSet};
use std::sync::atomic::{AtomicUsize, Ordering};

static COUNTER: AtomicUsize = AtomicUsize::new(0);
static mut PLAIN: usize = 0;
thread_local! { static TL: std::cell::Cell<usize> = std::cell::Cell::new(0); }

pub fn ctl_static_counter() -> usize {
    COUNTER.fetch_add(1, Ordering::SeqCst)
}
pub fn ctl_thread_local() -> usize {
    TL.with(|c| c.get())
}
pub fn ctl_env() -> bool {
    std::env::var("ENTRAIT_DEBUG").is_ok()
}
pub fn ctl_time() -> u128 {
    std::time::SystemTime::now().duration_since(std::time::UNIX_EPOCH).unwrap().as_nanos()
}
pub fn ctl_hash_iter(names: &[String]) -> Vec<String> {
    let set: HashSet<String> = names.iter().cloned().collect();
    set.into_iter().collect()
}
pub fn ctl_hash_iter_ref(set: &HashSet<String>) -> Option<&String> {
    set.iter().next()
}
pub fn ctl_hash_map_keys(map: &HashMap<String, u8>) -> Vec<String> {
    map.keys().cloned().collect()
}
pub fn ctl_hash_ok(set: &mut HashSet<String>, s: String) -> bool {
    if set.contains(&s) {
        false
    } else {
        set.insert(s)
    }
}
pub fn ctl_ptr_to_int(x: &u8) -> usize {
    x as *const u8 as usize
}
pub fn ctl_print() {
    println!("unconditional output");
}
pub fn ctl_unwrap(x: Option<u8>) -> u8 {
    x.unwrap()
}
pub fn ctl_expect(x: Result<u8, String>) -> u8 {
    x.expect("boom")
}
pub fn ctl_panic(x: u8) -> u8 {
    if x == 0 {
        panic!("zero");
    }
    x
}
pub fn ctl_unreachable(x: u8) -> u8 {
    match x {
        0 => 1,
        _ => unreachable!(),
    }
}
pub fn ctl_index(v: &[u8], i: usize) -> u8 {
    v[i]
}
pub fn ctl_rev(v: &[u8]) -> Vec<u8> {
    v.iter().rev().cloned().collect()
}
pub fn ctl_skip(v: &[u8]) -> Vec<u8> {
    v.iter().skip(1).cloned().collect()
}
pub fn ctl_sort(v: &mut Vec<u8>) {
    v.sort();
}
pub fn ctl_fs() -> bool {
    std::fs::metadata("/tmp").is_ok()
}

// ---- controls for the order rule (element types are recognised by name) ----
pub struct FnArg(pub u8);
pub struct TraitFn(pub u8);
pub fn ctl_order_rev(v: &[FnArg]) -> Vec<&FnArg> {
    v.iter().rev().collect()
}
pub fn ctl_order_skip(v: &[FnArg]) -> Vec<&FnArg> {
    v.iter().skip(1).collect()
}
pub fn ctl_order_take(v: &[TraitFn]) -> bool {
    v.iter().take(1).any(|t| t.0 == 0)
}
pub fn ctl_order_swap(v: &mut Vec<FnArg>) {
    v.swap(0, 1);
}
pub fn ctl_order_ok(v: &[FnArg]) -> Vec<u8> {
    v.iter().filter_map(|a| if a.0 > 0 { Some(a.0) } else { None }).collect()
}

// ---- control for the debug-format position rule (token types are recognised by path) ----
pub mod syn {
    #[derive(Debug)]
    pub struct Ident(pub u8);
    impl std::fmt::Display for Ident {
        fn fmt(&self, f: &mut std::fmt::Formatter<'_>) -> std::fmt::Result {
            write!(f, "{}", self.0)
        }
    }
}
pub fn ctl_debug_format(i: &syn::Ident) -> String {
    format!("{:?}", i)
}
pub fn ctl_display_format_ok(i: &syn::Ident) -> String {
    format!("{}", i)
}

// ---- control for the option-presence rule (the option wrapper type is recognised by path) ----
pub mod opt {
    #[derive(Clone, Copy)]
    pub struct SpanOpt<T>(pub T);
}
pub fn ctl_opt_presence(o: &Option<opt::SpanOpt<bool>>) -> bool {
    o.is_some()
}
pub fn ctl_opt_absence(o: Option<opt::SpanOpt<bool>>) -> bool {
    o.is_none()
}
pub fn ctl_opt_value_ok(o: Option<opt::SpanOpt<bool>>) -> bool {
    match o {
        Some(v) => v.0,
        None => false,
    }
}

// ---- controls for the build-configuration rule (token-level scan of the source) ----
pub fn ctl_cfg_macro() -> bool {
    cfg!(debug_assertions)
}
#[cfg(target_os = "linux")]
pub fn ctl_cfg_attr_item() -> u8 {
    1
}
pub fn ctl_env_macro() -> Option<&'static str> {
    option_env!("PROFILE")
}
pub fn ctl_line_macro() -> u32 {
    line!()
}
