//! props: C18
//! `cfg`-disabled function of an entraited impl block.
use entrait::*;

#[entrait(CfgRepoImpl, delegate_by = DelegateCfgRepo)]
pub trait CfgRepo {
    fn present(&self);
}
pub struct Target;
#[entrait]
impl CfgRepoImpl for Target {
    fn present<D>(deps: &D) {}
    #[cfg(any())]
    fn absent<D>(deps: &D) {}
}
