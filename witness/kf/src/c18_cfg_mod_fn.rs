//! props: C18
//! `cfg`-disabled functions of an entraited module / impl block must not leave a dangling trait method.
use entrait::*;

#[entrait(pub CfgMod)]
pub mod cfg_mod {
    pub fn present<D>(deps: &D) {}
    #[cfg(any())]
    pub fn absent<D>(deps: &D) {}
}

