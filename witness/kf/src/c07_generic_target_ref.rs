//! props: C07
//! KNOWN FINDING: same as c07_generic_target for dynamic delegation (`delegate_by = ref`).
use entrait::*;

#[entrait(GenericTargetRefImpl, delegate_by = ref)]
pub trait GenericTargetRef<G: Copy + 'static> {
    fn fill_target(&self, value: G) -> [G; 2];
}
