//! props: C07
//! KNOWN FINDING: an entraited trait WITH ITS OWN GENERIC PARAMETERS and a delegation-target trait.
//! The generated `TraitImpl<EntraitT, G..>` keeps the trait's parameters, but every use the macro
//! generates (`type Target: TraitImpl<T>`, `<T::Target as TraitImpl<T>>::f(..)`,
//! `dyn TraitImpl<T>`) names it with `EntraitT` only (E0107).
use entrait::*;

#[entrait(GenericTargetImpl, delegate_by = DelegateGenericTarget)]
pub trait GenericTarget<G: Copy + 'static> {
    fn fill_target(&self, value: G) -> [G; 2];
}
