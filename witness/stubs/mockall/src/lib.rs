//! Stub standing in for the real `mockall` crate in the witness corpus.
//! `#[::mockall::automock]` re-emits the trait unchanged and adds one marker item
//! `struct Mock<Trait>` (the name real mockall uses), so that a static query can observe
//! "the mockall derivation was attached to this trait in this configuration".
extern crate proc_macro;
use proc_macro::{Ident, Span, TokenStream, TokenTree};

#[proc_macro_attribute]
pub fn automock(_attr: TokenStream, item: TokenStream) -> TokenStream {
    let mut name = None;
    let mut prev_trait = false;
    for tt in item.clone() {
        if let TokenTree::Ident(id) = &tt {
            if prev_trait {
                name = Some(id.to_string());
                break;
            }
            prev_trait = id.to_string() == "trait";
        }
    }
    let mut out = item;
    if let Some(name) = name {
        let marker: TokenStream = format!(
            "#[allow(dead_code, non_camel_case_types)] pub struct {};",
            Ident::new(&format!("Mock{}", name), Span::call_site())
        )
        .parse()
        .unwrap();
        out.extend(marker);
    }
    out
}
