//! Stub standing in for the real `mockall` crate in the witness corpus.
//! `#[::mockall::automock]` re-emits the trait (or impl block) unchanged and adds one marker item
//! `struct Mock<Trait>` (the name real mockall uses), so that a static query can observe
//! "the mockall derivation was attached to this trait in this configuration".
extern crate proc_macro;
use proc_macro::{Ident, Span, TokenStream, TokenTree};

#[proc_macro_attribute]
pub fn automock(_attr: TokenStream, item: TokenStream) -> TokenStream {
    // trait Foo -> MockFoo; impl [Trait for] Type -> MockType (the names real mockall uses)
    let mut name = None;
    let mut prev_trait = false;
    let mut after_impl = None;
    let mut after_for = None;
    let mut prev = String::new();
    for tt in item.clone() {
        match &tt {
            TokenTree::Ident(id) => {
                let s = id.to_string();
                if prev_trait {
                    name = Some(s.clone());
                    break;
                }
                if prev == "impl" && after_impl.is_none() {
                    after_impl = Some(s.clone());
                }
                if prev == "for" && after_for.is_none() {
                    after_for = Some(s.clone());
                }
                prev_trait = s == "trait";
                prev = s;
            }
            TokenTree::Group(g) if g.delimiter() == proc_macro::Delimiter::Brace => break,
            _ => {}
        }
    }
    if name.is_none() {
        name = after_for.or(after_impl);
    }
    let mut out = item;
    if let Some(name) = name {
        let marker: TokenStream = format!(
            "#[allow(dead_code, non_camel_case_types)] pub struct {};",
            Ident::new(&format!("Mock{}", name), Span::call_site())
        )
        .parse()
        .unwrap();
        out.extend(marker);
    }
    out
}
