//! props: C15
use entrait::*;

#[entrait(delegate_by = )]
trait T {}
