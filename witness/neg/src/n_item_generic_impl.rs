//! props: C15
use entrait::*;

pub struct X<A>(A);
pub trait TImpl<T> {}
#[entrait]
impl<A> TImpl for X<A> {}
