//! props: C15
use entrait::*;

#[entrait(Foo)]
union U { a: u8 }
