//! props: C15
//! expect: Unkonwn entrait option \"bogus\"
//! at: bogus
use entrait::*;

#[entrait(Foo, bogus)]
fn foo<D>(deps: &D) {}
