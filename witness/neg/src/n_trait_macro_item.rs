//! props: C15
//! expect: Entrait does not support this kind of trait item
use entrait::*;

macro_rules! mk { () => {}; }
#[entrait]
trait T {
    mk!();
}
