//! props: C15
use entrait::*;

#[entrait(Foo, mock_api)]
fn foo<D>(deps: &D) {}
