//! props: C15
//! expect: No self allowed
use entrait::*;

pub trait HasAssoc { type A; }
#[entrait(Foo)]
fn foo<D: HasAssoc>(deps: &<D as HasAssoc>::A) {}
