//! props: C15
//! expect: Function must have a dependency 'receiver' as its first parameter\. Pass `no_deps`
//! at: fn foo
use entrait::*;

#[entrait(Foo)]
fn foo() {}
