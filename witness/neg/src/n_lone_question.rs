//! props: C15
use entrait::*;

#[entrait(Foo, ?)]
fn foo<D>(deps: &D) {}
