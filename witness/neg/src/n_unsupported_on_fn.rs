//! props: C15
//! expect: Unsupported option
//! at: delegate_by
use entrait::*;

#[entrait(Foo, delegate_by = ref)]
fn foo<D>(deps: &D) {}
