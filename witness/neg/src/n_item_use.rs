//! props: C15
use entrait::*;

#[entrait(Foo)]
use core::fmt;
