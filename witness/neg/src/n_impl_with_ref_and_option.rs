//! props: C15
use entrait::*;

pub struct X;
#[entrait(ref, no_deps)]
impl TImpl for X {}
