//! props: C15
use entrait::*;

#[entrait(a::Foo)]
fn foo<D>(deps: &D) {}
