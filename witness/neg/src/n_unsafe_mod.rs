//! props: C15
//! expect: Not allowed here
//! at: unsafe
use entrait::*;

#[entrait(Foo)]
unsafe mod m {}
