//! props: C15
use entrait::*;

pub struct X;
#[entrait]
impl X {}
