//! props: C15
use entrait::*;

#[entrait(pub)]
fn foo<D>(deps: &D) {}
