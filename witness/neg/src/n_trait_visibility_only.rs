//! props: C15
use entrait::*;

#[entrait(pub)]
trait T {}
