//! props: C15
//! expect: Function cannot have a self receiver
//! at: &self
use entrait::*;

#[entrait(Foo)]
fn foo(&self) {}
