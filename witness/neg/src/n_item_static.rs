//! props: C15
use entrait::*;

#[entrait(Foo)]
static S: u8 = 0;
