//! props: C15
//! expect: Cannot use a custom delegating trait without a custom trait to delegate to
//! at: delegate_by
use entrait::*;

#[entrait(delegate_by = Custom)]
trait T {}
