//! props: C15
use entrait::*;

#[entrait()]
fn foo<D>(deps: &D) {}
