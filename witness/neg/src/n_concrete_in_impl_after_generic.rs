//! props: C15
//! expect: Cannot \(yet\) use concrete dependency in an impl block
//! at: u8
use entrait::*;

pub struct X;
pub trait TImpl<T> { fn g(__impl: &Impl<T>); fn f(__impl: &Impl<T>); }
#[entrait]
impl TImpl for X {
    fn g<D>(deps: &D) {}
    fn f(deps: &u8) {}
}
