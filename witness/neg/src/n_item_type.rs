//! props: C15
use entrait::*;

#[entrait(Foo)]
type A = u8;
