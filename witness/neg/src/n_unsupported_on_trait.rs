//! props: C15
//! expect: Unsupported option
//! at: no_deps
use entrait::*;

#[entrait(no_deps)]
trait T {}
