//! props: C15
//! at: struct
use entrait::*;

#[entrait(Foo)]
struct S;
