//! props: C15
//! expect: Missing delegate_by
use entrait::*;

#[entrait(TImpl, delegate_by = Self)]
trait T {}
