//! props: C15
//! expect: Missing delegate_by
use entrait::*;

#[entrait(TImpl)]
trait T {}
