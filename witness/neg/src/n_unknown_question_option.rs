//! props: C15
//! expect: Unkonwn entrait option \"Sync\"
//! at: Sync
use entrait::*;

#[entrait(Foo, ?Sync)]
fn foo<D>(deps: &D) {}
