//! props: C15
//! expect: Unsupported option
//! at: export
use entrait::*;

#[entrait(export)]
trait T {}
