//! props: C15
//! expect: No leading colon allowed
use entrait::*;

#[entrait(Foo)]
fn foo(deps: &::core::primitive::u8) {}
