//! props: C15
//! at: enum
use entrait::*;

#[entrait(Foo)]
enum E { A }
