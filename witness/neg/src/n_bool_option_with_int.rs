//! props: C15
use entrait::*;

#[entrait(Foo, no_deps = 3)]
fn foo() {}
