//! props: C15
use entrait::*;

#[entrait(Foo)]
const C: u8 = 0;
