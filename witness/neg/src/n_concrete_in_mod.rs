//! props: C15
//! expect: Using concrete dependencies in a module is an anti-pattern
//! at: u8
use entrait::*;

#[entrait(M)]
mod m {
    pub fn f(deps: &u8) {}
}
