//! props: C15
//! expect: Unsupported option
//! at: export
use entrait::*;

pub struct X;
#[entrait(export)]
impl TImpl for X {}
