//! props: C15
use entrait::*;

#[entrait(Foo)]
macro_rules! m { () => {} }
