//! props: C15
use entrait::*;

#[entrait(Foo)]
mod m { pub fn broken<D>(deps: &D) }
