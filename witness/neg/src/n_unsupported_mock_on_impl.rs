//! props: C15
//! expect: Unsupported option
//! at: mockall
use entrait::*;

pub struct X;
#[entrait(mockall)]
impl TImpl for X {}
