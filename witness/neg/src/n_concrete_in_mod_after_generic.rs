//! props: C15
//! expect: Using concrete dependencies in a module is an anti-pattern
//! at: u8
use entrait::*;

pub trait Clock {}
#[entrait(M)]
mod m {
    pub fn first(deps: &impl super::Clock) {}
    pub fn generic<D>(deps: &D) {}
    pub fn f(deps: &u8) {}
}
