//! props: C15
use entrait::*;

#[entrait(Foo)]
extern "C" {}
