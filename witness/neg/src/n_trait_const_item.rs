//! props: C15
//! expect: Entrait does not support this kind of trait item
//! at: const
use entrait::*;

#[entrait]
trait T {
    const C: u8;
}
