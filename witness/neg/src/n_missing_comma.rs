//! props: C15
use entrait::*;

#[entrait(Foo no_deps)]
fn foo() {}
