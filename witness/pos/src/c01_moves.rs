//! props: C01 C03 C14
//! Moved and borrowed arguments, generic and lifetime-generic functions, returns borrowing
//! from the dependency / from an argument.
use entrait::*;

#[entrait(Mv)]
fn mv<D>(deps: &D, s: String, v: Vec<u8>, r: &str, m: &mut Vec<u8>) -> usize {
    m.extend_from_slice(&v);
    s.len() + r.len()
}
#[entrait(Gen)]
fn gen<D, T: Clone, U>(deps: &D, t: T, u: U, t2: T) -> (T, U) {
    (t2, u)
}
#[entrait(Lt)]
fn lt<'a, 'b, D>(deps: &'a D, x: &'a str, y: &'b str) -> &'a str {
    x
}
#[entrait(FromDeps)]
fn from_deps<'d, D: AsRef<str>>(deps: &'d D, other: &str) -> &'d str {
    deps.as_ref()
}
#[entrait(FromArg)]
fn from_arg<'x, D>(deps: &D, first: &'x [u8], second: &'x [u8]) -> &'x [u8] {
    second
}
#[entrait(BoxDyn)]
fn box_dyn<D>(deps: &D, f: Box<dyn Fn(i32) -> i32 + Send>, g: Box<dyn Fn(i32) -> i32 + Send>) -> i32 {
    g(f(1))
}
#[entrait(WhereFn)]
fn where_fn<D, F>(deps: &D, f: F, x: u32, y: u32) -> u32
where
    F: Fn(u32, u32) -> u32,
{
    f(x, y)
}
