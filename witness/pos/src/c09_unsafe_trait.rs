//! props: C09
//! `unsafe trait` must stay unsafe: implementing it requires `unsafe impl`.
use entrait::*;

#[entrait]
pub unsafe trait Dangerous {
    fn one(&self, a: u8) -> u8;
}
pub struct X;
unsafe impl Dangerous for X {
    fn one(&self, a: u8) -> u8 {
        a
    }
}
