//! props: C09
//! (unimock's own `impl .. for Unimock` is not `unsafe impl`, so mock support is off here.)
//! `unsafe trait` must stay unsafe: implementing it requires `unsafe impl`.
use entrait::*;

#[entrait(unimock = false)]
pub unsafe trait Dangerous {
    fn one(&self, a: u8) -> u8;
}
pub struct X;
unsafe impl Dangerous for X {
    fn one(&self, a: u8) -> u8 {
        a
    }
}
