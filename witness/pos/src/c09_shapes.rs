//! props: C09 C06
//! Generics, supertraits, where clauses, visibilities, async methods (the one documented rewrite).
use entrait::*;

pub trait Sup {}
impl<T> Sup for Impl<T> {}

#[entrait(unimock = false)]
pub(crate) trait Shapes<'x, T: Clone + 'static, const N: usize>: Sup + Send + Sync
where
    T: core::fmt::Debug,
{
    fn arr(&self, a: [T; N]) -> [T; N];
    fn lt(&self, a: &'x str) -> &'x str;
    fn gen<U: Into<T> + 'static>(&self, u: U) -> T
    where
        U: Clone;
}

#[entrait]
trait PrivateAsync {
    async fn unit(&self);
    async fn owned(&self, a: String, b: String) -> (String, String);
    async fn borrowed<'a>(&'a self, a: &'a str) -> &'a str;
    fn sync(&self) -> u8;
}

#[entrait(?Send)]
pub trait AsyncNoSend {
    async fn rc(&self, a: std::rc::Rc<u8>) -> std::rc::Rc<u8>;
}

/// lifetime parameters with bounds, a type parameter bounded by a lifetime
#[entrait(unimock = false)]
pub trait Scoped<'short, 'long: 'short, T: 'long + Clone> {
    fn pick(&self, a: &'short T, b: &'long T) -> &'short T;
}

pub trait Encode {}
/// async methods with their own generics and where clauses
#[entrait(unimock = false)]
pub trait AsyncWhere {
    async fn store<T>(&self, value: T) -> usize
    where
        T: Encode + Send;
    async fn pick<'a, T: Sync>(&'a self, a: &'a T) -> &'a T
    where
        T: Encode;
    fn sync_where<T>(&self, value: T) -> usize
    where
        T: Encode;
}

// const parameter before type parameters: the trait keeps the parameter order the user wrote
#[entrait(unimock = false)]
pub trait ConstFirstShape<const N: usize, T: Copy + 'static, const M: usize> {
    fn chunk(&self, value: T) -> ([T; N], [T; M]);
}

// two `#[cfg]`-exclusive declarations of one method name (valid Rust: at most one survives)
#[entrait(unimock = false)]
pub trait CfgAlternatives {
    #[cfg(all())]
    fn now(&self) -> u64;
    #[cfg(any())]
    fn now(&self) -> u128;
    fn other(&self) -> u8;
}
#[entrait(delegate_by = ref, unimock = false)]
pub trait CfgAlternativesRef {
    #[cfg(any())]
    fn now(&self) -> u128;
    #[cfg(all())]
    fn now(&self) -> u64;
}
