//! props: C12 C01 C14
//! Async functions / methods handled without async_trait: return types of every kind, with and without ?Send.
use entrait::*;
use std::rc::Rc;

pub struct App {
    pub name: String,
}

#[entrait(RUnit)]
async fn r_unit<D>(deps: &D) {}
#[entrait(ROwned)]
async fn r_owned<D>(deps: &D, a: u8) -> Vec<u8> {
    vec![a]
}
#[entrait(RTuple)]
async fn r_tuple<D>(deps: &D, a: u8, b: u16) -> (u8, u16) {
    (a, b)
}
#[entrait(RResult)]
async fn r_result<D>(deps: &D, a: u8) -> Result<u8, String> {
    Ok(a)
}
#[entrait(RBorrowArg)]
async fn r_borrow_arg<'a, D>(deps: &D, a: &'a str, b: &'a str) -> &'a str {
    b
}
#[entrait(RBorrowDeps)]
async fn r_borrow_deps<'a>(deps: &'a App, other: &str) -> &'a str {
    &deps.name
}
#[entrait(RGeneric)]
async fn r_generic<D, T: Send + 'static>(deps: &D, t: T) -> Option<T> {
    Some(t)
}
#[entrait(RNoSendRc, ?Send)]
async fn r_no_send_rc<D>(deps: &D, a: Rc<u8>) -> Rc<u8> {
    r_unit(deps).await;
    a
}
#[entrait(RNoSendUnit, ?Send)]
async fn r_no_send_unit<D>(deps: &D) {}
#[entrait(RNoDeps, no_deps)]
async fn r_no_deps(a: u8) -> u8 {
    a
}
#[entrait(RNoDepsNoSend, no_deps, ?Send)]
async fn r_no_deps_no_send(a: Rc<u8>) -> Rc<u8> {
    a
}

#[entrait(pub RMod)]
pub mod r_mod {
    pub async fn ma<D>(deps: &D, a: u8) -> u8 {
        a
    }
    pub fn mb<D>(deps: &D, a: u8) -> u8 {
        a
    }
    pub async fn mc<D>(deps: &D) -> String {
        String::new()
    }
}

#[entrait(pub RModNoSend, ?Send)]
pub mod r_mod_no_send {
    pub async fn na<D>(deps: &D, a: std::rc::Rc<u8>) -> std::rc::Rc<u8> {
        a
    }
}

#[entrait]
pub trait TSend {
    async fn a(&self, x: u8) -> Vec<u8>;
    async fn b(&self);
}
#[entrait(?Send)]
pub trait TNoSend {
    async fn a(&self, x: Rc<u8>) -> Rc<u8>;
}
#[entrait(TInvImpl, delegate_by = DelegateTInv)]
pub trait TInv {
    async fn a(&self, x: u8) -> Vec<u8>;
}
pub struct TInvTarget;
#[entrait]
impl TInvImpl for TInvTarget {
    async fn a<D>(deps: &D, x: u8) -> Vec<u8> {
        vec![x]
    }
}
#[entrait(TInvNoSendImpl, delegate_by = DelegateTInvNoSend, ?Send)]
pub trait TInvNoSend {
    async fn a(&self, x: Rc<u8>) -> Rc<u8>;
}

/// The Send bound is observable: a generic caller may require it.
fn is_send<T: Send>(t: T) -> T {
    t
}
fn needs_send<D: ROwned + RMod + TSend>(d: &D) {
    let _ = is_send(d.r_owned(1));
    let _ = is_send(d.ma(1));
    let _ = is_send(TSend::a(d, 1));
}

/// large by-value arguments (arrays, nested arrays, big tuples) through async delegation
#[entrait(RBigArray)]
async fn r_big_array<D>(deps: &D, block: [u8; 64], blocks: [[u8; 128]; 4]) -> usize {
    block.len() + blocks.len()
}
#[entrait(pub RBigMod)]
pub mod r_big_mod {
    pub async fn big<D>(deps: &D, block: [u8; 4096]) -> usize {
        block.len()
    }
    pub async fn small<D>(deps: &D, block: [u8; 63]) -> usize {
        block.len()
    }
}

// modules mixing by-reference and by-value deps: a by-value async method owns `self`, so its future
// is only Send when the application type is — wherever in the module that method is declared
pub trait MDep {
    fn m(&self) -> u32;
}
#[entrait(pub RefThenValue)]
pub mod ref_then_value {
    use super::MDep;
    pub fn describe(deps: &impl MDep) -> u32 {
        deps.m()
    }
    pub async fn by_ref(deps: &impl MDep, x: u32) -> u32 {
        deps.m() + x
    }
    pub async fn run_owned<D: MDep>(deps: D, x: u32) -> u32 {
        deps.m() + x
    }
}
#[entrait(pub ValueThenRef)]
pub mod value_then_ref {
    use super::MDep;
    pub async fn run_owned_first<D: MDep>(deps: D, x: u32) -> u32 {
        deps.m() + x
    }
    pub fn describe2(deps: &impl MDep) -> u32 {
        deps.m()
    }
}
#[entrait(pub RefValueRef)]
pub mod ref_value_ref {
    use super::MDep;
    pub fn a1(deps: &impl MDep) -> u32 {
        deps.m()
    }
    pub async fn a2(deps: impl MDep, x: u32) -> u32 {
        deps.m() + x
    }
    pub async fn a3(deps: &impl MDep, x: u32) -> u32 {
        deps.m() + x
    }
}

// entrait's own naming convention applied to a function called `send` / `sync`: the generated trait is NAMED like
// the marker trait the future bound refers to
pub mod mailer {
    use entrait::*;
    #[entrait(pub Send)]
    pub async fn send(deps: &impl core::any::Any, n: usize) -> usize {
        n
    }
}
pub mod syncer {
    use entrait::*;
    #[entrait(pub Sync)]
    pub async fn sync<D>(deps: &D, n: usize) -> usize {
        n
    }
    #[entrait(pub Future, ?Send)]
    pub async fn future<D>(deps: &D, n: usize) -> usize {
        n
    }
}

// `async unsafe fn`: the delegating method still awaits the original's future (fn, module, impl block)
#[entrait(RAsyncUnsafe)]
async unsafe fn r_async_unsafe<D>(deps: &D, v: &[u8]) -> u8 {
    *v.get_unchecked(0)
}
#[entrait(RAsyncUnsafeNoSend, ?Send)]
async unsafe fn r_async_unsafe_no_send<D>(deps: &D, v: Rc<u8>) -> &str {
    "x"
}
#[entrait(pub RAsyncUnsafeMod)]
pub mod r_async_unsafe_mod {
    pub async unsafe fn first<D>(deps: &D, a: u8) -> u8 {
        a
    }
    pub async unsafe fn unit<D>(deps: &D) {}
}
#[entrait(RAsyncUnsafeImplT, delegate_by = DelegateRAsyncUnsafe)]
pub trait RAsyncUnsafeT {
    async unsafe fn get(&self, a: u8) -> u8;
}
pub struct RAsyncUnsafeX;
#[entrait]
impl RAsyncUnsafeImplT for RAsyncUnsafeX {
    pub async unsafe fn get<D>(deps: &D, a: u8) -> u8 {
        a
    }
}
