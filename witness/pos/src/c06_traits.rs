//! props: C06 C09 C14
//! Entraited traits without a delegation target: default (T: Trait), delegate_by=Self, ref, Borrow.
use entrait::*;

#[entrait]
pub trait Plain {
    fn one(&self, a: i32, b: i32) -> i32;
    fn two(&self, a: i32, b: i32) -> i32;
    fn three(&self, a: u8, b: u8, c: u8) -> [u8; 3];
    fn none(&self);
}

#[entrait(delegate_by = ref)]
pub trait ByRef {
    fn one(&self, a: i32, b: i32) -> i32;
    fn two(&self, a: i32, b: i32) -> i32;
    fn borrowed<'a>(&'a self, x: &'a str, y: &'a str) -> &'a str;
}

#[entrait(delegate_by = Borrow)]
pub trait ByBorrow {
    fn one(&self, a: i32, b: i32) -> i32;
    fn two(&self, a: i32, b: i32) -> i32;
}

#[entrait]
pub trait GenericTrait<T, U>
where
    T: Clone,
{
    fn get(&self, t: T, u: U, t2: T) -> (T, U);
}

#[entrait(delegate_by = ref)]
pub trait GenericTraitRef<T: 'static> {
    fn get(&self, t: T, t2: T) -> T;
}

#[entrait(unimock = false)]
pub trait GenericMethod {
    fn conv<T: Into<u64> + 'static, U: 'static>(&self, t: T, u: U, t2: T) -> u64;
    fn lt<'a, 'b>(&'a self, x: &'a str, y: &'b str) -> &'a str;
}

pub trait Super {
    fn sup(&self) -> u8;
}

#[entrait(unimock = false)]
pub trait WithSuper: Super + Send {
    fn sub(&self, a: u8, b: u8) -> u8;
}
impl<T: Super + Sync + 'static> Super for Impl<T> {
    fn sup(&self) -> u8 {
        0
    }
}

#[entrait]
pub trait AsyncPlain {
    async fn one(&self, a: i32, b: i32) -> i32;
    async fn unit(&self);
    fn sync(&self, a: i32, b: i32) -> i32;
}

#[entrait(?Send)]
pub trait AsyncNoSend {
    async fn one(&self, a: i32, b: i32) -> i32;
}

#[entrait(delegate_by = ref)]
#[async_trait::async_trait]
pub trait AsyncByRef {
    async fn one(&self, a: i32, b: i32) -> i32;
    async fn two(&self, a: i32, b: i32) -> i32;
}

#[entrait(delegate_by = Borrow)]
#[async_trait::async_trait]
pub trait AsyncByBorrow {
    async fn one(&self, a: i32, b: i32) -> i32;
}

#[entrait]
#[async_trait::async_trait]
pub trait AsyncTraitPlain {
    async fn one(&self, a: i32, b: i32) -> i32;
}

#[entrait(mockall)]
pub trait MockallTrait {
    fn one(&self, a: i32, b: i32) -> i32;
}

#[entrait(delegate_by = ref)]
#[async_trait::async_trait]
pub trait MixedByRef {
    fn label(&self, prefix: &str) -> String;
    async fn total(&self, a: i32, b: i32) -> i32;
}
#[entrait(delegate_by = Borrow)]
#[async_trait::async_trait]
pub trait MixedByBorrow {
    async fn total(&self, a: i32, b: i32) -> i32;
    fn label(&self, prefix: &str) -> String;
}
#[entrait(delegate_by = ref)]
pub trait GenericTraitRef2<K: 'static, V: 'static> {
    fn get<'a>(&'a self, k: &'a K, v: &'a V) -> &'a V;
}
#[entrait(delegate_by = Borrow)]
pub trait GenericTraitBorrow<K: 'static> {
    fn get(&self, k: K, k2: K) -> K;
}

// const parameter declared BEFORE a type parameter (allowed since Rust 1.59): parameter list and
// argument list (`Trait<N, T>`, `dyn Trait<N, T>`) of every generated impl must keep the declared order
#[entrait(unimock = false)]
pub trait ConstFirst<const N: usize, T: Copy> {
    fn fill(&self, value: T, offset: usize) -> ([T; N], usize);
}
#[entrait(delegate_by = ref, unimock = false)]
pub trait ConstFirstRef<const N: usize, T: Copy + 'static> {
    fn fill_ref(&self, value: T, offset: usize) -> ([T; N], usize);
}
#[entrait(delegate_by = Borrow, unimock = false)]
pub trait ConstFirstBorrow<'a, const N: usize, T: Copy + 'static, const M: usize, U: 'static> {
    fn fill_bor(&self, value: &'a T, other: [U; M]) -> ([T; N], usize);
}

// a generic method with BOTH a type and a const parameter
#[entrait(unimock = false)]
pub trait Widen {
    fn widen<U: From<u8>, const N: usize>(&self, raw: [u8; N]) -> [U; N];
    fn only_const<const N: usize>(&self, raw: [u8; N]) -> usize;
    fn lt_type_const<'a, U: 'a, const N: usize>(&self, raw: &'a [U; N]) -> &'a U;
}
