//! props: C04 C03
//! Where-clause predicates of every syntactic form, deps parameter in every position of the generics list.
use entrait::*;

pub trait DepA {}
pub trait DepB {}
pub trait HasAssoc {
    type A;
}
pub trait Marker {}
impl Marker for u8 {}
impl<'a> Marker for &'a u8 {}
impl Marker for [u8] {}
impl Marker for (u8, u16) {}
pub mod deep {
    pub struct Named;
    impl super::Marker for Named {}
}

/// deps parameter last in the list, lifetimes and other type parameters before it
#[entrait(DepsLast)]
fn deps_last<'a, T: Clone, U, D: DepA>(deps: &D, t: &'a T, u: U) -> &'a T {
    t
}
/// deps parameter in the middle
#[entrait(DepsMiddle)]
fn deps_middle<T, D, U>(deps: &D, t: T, u: U) -> U
where
    D: DepA + DepB,
    T: Clone,
    U: Clone,
{
    u
}
/// bounded types that are not plain parameters: reference, slice, tuple, multi-segment path, qualified path
#[entrait(OddBounded)]
fn odd_bounded<'a, D, T: HasAssoc>(deps: &D, t: &'a T) -> usize
where
    D: DepA,
    [u8]: Marker,
    (u8, u16): Marker,
    deep::Named: Marker,
    <T as HasAssoc>::A: Clone,
{
    0
}
/// the same in a module, spread over several functions
#[entrait(pub WhereMod)]
pub mod where_mod {
    use super::*;
    pub fn first<D, T: HasAssoc + Clone>(deps: &D, t: T) -> T
    where
        D: DepA,
        <T as HasAssoc>::A: Clone,
    {
        t
    }
    pub fn second<V, D>(deps: &D, t: V) -> V
    where
        D: DepB,
        [u8]: Marker,
        V: HasAssoc + Clone,
    {
        t
    }
}
/// deps declared with a lifetime bound and a `?Sized`-free generic bound list containing a path with arguments
pub trait Get<K> {
    fn get(&self, k: K) -> K;
}
#[entrait(SameTraitTwice)]
fn same_trait_twice(deps: &(impl Get<u8> + Get<u16>), a: u8, b: u16) -> (u8, u16) {
    (deps.get(a), deps.get(b))
}
#[entrait(pub SameTraitTwiceMod)]
pub mod same_trait_twice_mod {
    use super::Get;
    pub fn one<D: Get<u8>>(deps: &D, a: u8) -> u8 {
        deps.get(a)
    }
    pub fn two<D>(deps: &D, a: u16) -> u16
    where
        D: Get<u16>,
    {
        deps.get(a)
    }
    pub fn three(deps: &impl Get<u32>, a: u32) -> u32 {
        deps.get(a)
    }
}
