//! props: C04 C10
//! requires: unimock
//! Mock settings that name unimock explicitly (only meaningful with the cargo feature).
use entrait::*;

/// a dependency that the mock type implements as well (when unimock support is on)
#[entrait(pub DepA, mock_api = DepAMock)]
fn dep_a<D>(deps: &D) {}

#[entrait(MuUnimock, unimock)]
fn mu_unimock<D: DepA>(deps: &D) {}
#[entrait(MuUnimockApi, unimock, mock_api = MuUnimockApiMock)]
fn mu_unimock_api<D: DepA>(deps: &D, a: i32, b: i32) -> i32 {
    a - b
}
#[entrait(MuUnimockTrueApi, unimock = true, mock_api = MuUnimockTrueApiMock)]
fn mu_unimock_true_api<D: DepA>(deps: &D, a: i32, b: i32) -> i32 {
    a - b
}
#[entrait(pub MuMod, mock_api = MuModMock)]
pub mod mu_mod {
    pub fn x<D: super::DepA>(deps: &D, a: i32, b: i32) -> i32 {
        a - b
    }
    pub fn y<D: super::DepA>(deps: &D, a: i32, b: i32) -> i32 {
        b - a
    }
}
