//! props: C11 C10 C01
//! requires: unimock
//! Unimock wiring: mock API names, argument order into the mock, un-mocking of generic-deps and
//! no_deps functions, none for concrete deps and entraited traits.
use entrait::*;

pub struct N(pub i32);

#[entrait(U0, mock_api = U0Mock)]
fn u0<D>(deps: &D) -> u8 {
    0
}
#[entrait(U1, mock_api = U1Mock)]
fn u1<D>(deps: &D, a: i32) -> i32 {
    a
}
#[entrait(U3, mock_api = U3Mock)]
fn u3<D>(deps: &D, a: i32, b: i32, c: i32) -> i32 {
    a - b - c
}
#[entrait(UPat, mock_api = UPatMock)]
fn u_pat<D>(deps: &D, N(a): N, (b, c): (i32, i32), _: i32) -> i32 {
    a - b - c
}
#[entrait(UGen, mock_api = UGenMock)]
fn u_gen<D, T: 'static + Clone>(deps: &D, t: T, u: T) -> T {
    u
}
#[entrait(UAsync, mock_api = UAsyncMock)]
async fn u_async<D>(deps: &D, a: i32, b: i32) -> i32 {
    a - b
}
#[entrait(UNoDeps, no_deps, mock_api = UNoDepsMock)]
fn u_no_deps(a: i32, b: i32, c: i32) -> i32 {
    a - b - c
}
#[entrait(UNoDepsPat, no_deps, mock_api = UNoDepsPatMock)]
fn u_no_deps_pat(N(a): N, N(b): N) -> i32 {
    a - b
}
#[entrait(UNoDepsAsync, no_deps, mock_api = UNoDepsAsyncMock)]
async fn u_no_deps_async(a: i32, b: i32) -> i32 {
    a - b
}
/// no_deps: parameters that get generated names before / between plain ones
#[entrait(UNoDepsMixed, no_deps, mock_api = UNoDepsMixedMock)]
fn u_no_deps_mixed((ox, oy): (i32, i32), point: (i32, i32)) -> (i32, i32) {
    (point.0 - ox, point.1 - oy)
}
#[entrait(UNoDepsMixed4, no_deps, mock_api = UNoDepsMixed4Mock)]
fn u_no_deps_mixed4(_: u8, a: u8, (b, c): (u8, u8), d: u8) -> u8 {
    a - b - c - d
}
#[entrait(UMixed4, mock_api = UMixed4Mock)]
fn u_mixed4<D>(deps: &D, _: u8, a: u8, (b, c): (u8, u8), d: u8) -> u8 {
    a - b - c - d
}
pub struct App;
#[entrait(UConcrete, mock_api = UConcreteMock)]
fn u_concrete(deps: &App, a: i32, b: i32) -> i32 {
    a - b
}
// a parameter named like the function: the un-mock arm calls the FUNCTION with the (renamed) bindings
#[entrait(UNamedLikeFn, mock_api = UNamedLikeFnMock)]
fn u_named_like_fn(deps: &impl core::any::Any, u_named_like_fn: i32, value: i32) -> i32 {
    u_named_like_fn - value
}
#[entrait(UNamedLikeFnNoDeps, no_deps, mock_api = UNamedLikeFnNoDepsMock)]
fn u_named_like_fn_no_deps(value: i32, u_named_like_fn_no_deps: i32) -> i32 {
    u_named_like_fn_no_deps - value
}
#[entrait(pub UNamedLikeFnMod, mock_api = UNamedLikeFnModMock)]
pub mod u_named_like_fn_mod {
    pub fn inner_named<D>(deps: &D, inner_named: i32, value: i32) -> i32 {
        inner_named - value
    }
}
// a trait OBJECT as dependency is a concrete dependency type, not a generic one
#[entrait(UDyn, mock_api = UDynMock)]
fn u_dyn(deps: &dyn core::any::Any, a: i32, b: i32) -> i32 {
    a - b
}
#[entrait(UDynAuto, mock_api = UDynAutoMock)]
fn u_dyn_auto(deps: &(dyn core::fmt::Debug + Send + Sync), a: i32) -> i32 {
    a
}
#[entrait(UByValue, mock_api = UByValueMock)]
fn u_by_value<D: Clone>(deps: &D, a: String, b: String) -> String {
    b
}
#[entrait(UExport, mock_api = UExportMock, export)]
fn u_export<D>(deps: &D, a: i32, b: i32) -> i32 {
    a - b
}

#[entrait(pub UMod, mock_api = UModMock)]
pub mod u_mod {
    pub fn same_a<D>(deps: &D, a: i32, b: i32) -> i32 {
        a - b
    }
    pub fn same_b<D>(deps: &D, a: i32, b: i32) -> i32 {
        b - a
    }
    pub fn same_c<D>(deps: &D, a: i32, b: i32) -> i32 {
        a + b
    }
    pub async fn other<D>(deps: &D) {}
}

#[entrait(mock_api = UTraitMock)]
pub trait UTrait {
    fn one(&self, a: i32, b: i32) -> i32;
    fn two(&self, a: i32, b: i32) -> i32;
}
#[entrait]
pub trait UTraitHidden {
    fn one(&self, a: i32, b: i32) -> i32;
}

/// the mock API names are usable as written (mock APIs exist under cfg(test) unless exported)
#[cfg(test)]
fn client() {
    let _ = (U0Mock, U3Mock, UNoDepsMock, UConcreteMock);
    let _ = (u_mod::UModMock::same_a, u_mod::UModMock::other, UTraitMock::one, UTraitMock::two);
}

// entraited INSIDE A FUNCTION BODY (as in tests and doc examples), next to a module-level function of the
// same name and signature: the un-mock arm must call the block-local original, not `self::u_local`
fn u_local(a: i32, b: i32) -> i32 {
    a * 100 + b
}
fn u_local_gen<D>(deps: &D, a: i32, b: i32) -> i32 {
    a * 100 + b
}
fn local_scope() {
    #[entrait(ULocal, no_deps, mock_api = ULocalMock)]
    fn u_local(a: i32, b: i32) -> i32 {
        a - b
    }
    #[entrait(ULocalGen, mock_api = ULocalGenMock)]
    fn u_local_gen<D>(deps: &D, a: i32, b: i32) -> i32 {
        a - b
    }
    #[entrait(ULocalOnly, no_deps, mock_api = ULocalOnlyMock)]
    fn u_local_only(a: i32) -> i32 {
        a
    }
}

// mock support requested for a module WITHOUT any visible function (no un-mock list to emit)
#[entrait(pub UEmptyMod, mock_api = UEmptyModMock)]
pub mod u_empty_mod {}
#[entrait(pub UOnlyPrivate, mock_api = UOnlyPrivateMock)]
pub mod u_only_private {
    fn hidden<D>(deps: &D) {}
}

// a non-dependency parameter taken by `&mut`: still un-mockable (generic deps / no_deps)
#[entrait(UMutParam, mock_api = UMutParamMock)]
fn u_mut_param<D>(deps: &D, out: &mut Vec<i32>, a: i32) -> usize {
    out.push(a);
    out.len()
}
#[entrait(UMutParamNoDeps, no_deps, mock_api = UMutParamNoDepsMock)]
fn u_mut_param_no_deps(out: &mut Vec<i32>, a: i32) -> usize {
    out.push(a);
    out.len()
}
#[entrait(pub UMutParamMod, mock_api = UMutParamModMock)]
pub mod u_mut_param_mod {
    pub fn fill<D>(deps: &D, out: &mut [u8], a: u8) {
        out[0] = a;
    }
}

// sibling modules using the SAME mock_api identifier (as the documentation's `mock_api = mock`): each module's mock
// API lives under `<module>::<mock_api>` only, nothing of that name is added to the parent scope
#[entrait(pub USiblingA, mock_api = mock)]
pub mod u_sibling_a {
    pub fn sa<D>(deps: &D, a: i32) -> i32 {
        a
    }
}
#[entrait(pub USiblingB, mock_api = mock)]
pub mod u_sibling_b {
    pub fn sb<D>(deps: &D, a: i32) -> i32 {
        a
    }
}
pub struct mock;

// the dependency is one instantiation of a *generic* entraited trait (bound with type arguments):
// un-mocking still reaches the function, with the mock object as dependency
#[entrait(ULoad, mock_api = ULoadMock)]
fn u_load<T: Default + 'static>(_deps: &impl core::any::Any, _key: u32) -> T {
    T::default()
}
#[entrait(UDescribe, mock_api = UDescribeMock)]
fn u_describe(deps: &impl ULoad<i32>, key: u32, offset: i32) -> i32 {
    deps.u_load(key) - offset
}
#[entrait(pub UDescribeMod, mock_api = UDescribeModMock)]
pub mod u_describe_mod {
    use super::ULoad;
    pub fn first<D>(deps: &D, key: u32, offset: i32) -> i32
    where
        D: ULoad<i32> + ULoad<u8>,
    {
        offset
    }
}
