//! props: C09
//! Associated types must be kept.
use entrait::*;

#[entrait]
pub trait WithAssoc {
    type Out: Clone;
    fn make(&self, a: u8) -> u8;
}
// (no implementor here: with the recorded defect an implementor would not compile, and the whole
// corpus would need a second compile round on every run; the twin diff decides this witness)
