//! Positive witness corpus: every module must compile with the macro built from /repo.
//! One top-level module per file; `--cfg skip_<module>` drops a module (used to keep the
//! rest analysable when one module stops compiling). Regenerate with tools/genlib.py.
#![allow(dead_code, unused_variables, unused_imports, clippy::all)]
#[cfg(not(skip_c01_arity))]
pub mod c01_arity;
#[cfg(not(skip_c01_async))]
pub mod c01_async;
#[cfg(not(skip_c01_module))]
pub mod c01_module;
#[cfg(not(skip_c01_moves))]
pub mod c01_moves;
#[cfg(not(skip_c01_patterns))]
pub mod c01_patterns;
#[cfg(not(skip_c01_receivers))]
pub mod c01_receivers;
#[cfg(not(skip_c04_bounds))]
pub mod c04_bounds;
#[cfg(not(skip_c05_concrete))]
pub mod c05_concrete;
