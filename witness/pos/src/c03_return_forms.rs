//! props: C03 C12 C01
//! Forms of the return type, sync and async, fn and module mode.
use entrait::*;
use std::fmt::Debug;

pub trait Dep {
    fn dep(&self) -> &str;
}

#[entrait(R01)]
fn r01(deps: &impl Dep) {}
#[entrait(R02)]
fn r02(deps: &impl Dep) -> () {}
#[entrait(R03)]
fn r03(deps: &impl Dep) -> ! {
    loop {}
}
#[entrait(R04)]
fn r04(deps: &impl Dep, n: u8) -> impl Iterator<Item = u8> {
    0..n
}
#[entrait(R05)]
fn r05<'a>(deps: &'a impl Dep, v: &'a [u8]) -> impl Iterator<Item = &'a u8> + 'a {
    v.iter()
}
#[entrait(R06)]
fn r06(deps: &impl Dep) -> Box<dyn Fn(u8) -> u8 + Send> {
    Box::new(|a| a)
}
#[entrait(R07)]
fn r07(deps: &impl Dep) -> Result<(), Box<dyn std::error::Error + Send + Sync>> {
    Ok(())
}
#[entrait(R08)]
fn r08(deps: &impl Dep) -> (u8, [u8; 2], &'static str) {
    (1, [1, 2], "x")
}
#[entrait(R09)]
fn r09(deps: &impl Dep) -> &str {
    deps.dep()
}
#[entrait(R10)]
fn r10<T: Default + Debug>(deps: &impl Dep) -> Option<T> {
    Some(T::default())
}
#[entrait(R11)]
fn r11(deps: &impl Dep) -> fn(&str) -> &str {
    |s| s
}
#[entrait(R12)]
fn r12(deps: &impl Dep) -> impl Debug + Send + 'static {
    1u8
}
#[entrait(R13)]
fn r13(deps: &impl Dep) -> core::slice::Iter<'_, u8> {
    [].iter()
}
#[entrait(R14)]
fn r14(deps: &impl Dep) -> <u8 as core::ops::Add>::Output {
    1
}
#[entrait(R15)]
fn r15(deps: &impl Dep) -> *const u8 {
    core::ptr::null()
}

#[entrait(A01)]
async fn a01(deps: &impl Dep) {}
#[entrait(A02)]
async fn a02(deps: &impl Dep) -> () {}
#[entrait(A04)]
async fn a04(deps: &impl Dep, n: u8) -> impl Iterator<Item = u8> {
    0..n
}
#[entrait(A06)]
async fn a06(deps: &impl Dep) -> Box<dyn Fn(u8) -> u8 + Send> {
    Box::new(|a| a)
}
#[entrait(A07)]
async fn a07(deps: &impl Dep) -> Result<(), Box<dyn std::error::Error + Send + Sync>> {
    Ok(())
}
#[entrait(A08)]
async fn a08(deps: &impl Dep) -> (u8, [u8; 2], &'static str) {
    (1, [1, 2], "x")
}
#[entrait(A09)]
async fn a09(deps: &impl Dep) -> &str {
    deps.dep()
}
#[entrait(A10)]
async fn a10<T: Default + Debug + Send>(deps: &impl Dep) -> Option<T> {
    Some(T::default())
}
#[entrait(A11)]
async fn a11(deps: &impl Dep) -> fn(&str) -> &str {
    |s| s
}
#[entrait(A12)]
async fn a12(deps: &impl Dep) -> impl Debug + Send + 'static {
    1u8
}
#[entrait(A13)]
async fn a13(deps: &impl Dep) -> core::slice::Iter<'_, u8> {
    [].iter()
}

#[entrait(pub RMod)]
pub mod r_mod {
    use super::Dep;
    pub fn m04(deps: &impl Dep, n: u8) -> impl Iterator<Item = u8> {
        0..n
    }
    pub fn m09(deps: &impl Dep) -> &str {
        deps.dep()
    }
    pub async fn m_a09(deps: &impl Dep) -> &str {
        deps.dep()
    }
    pub fn m03(deps: &impl Dep) -> ! {
        loop {}
    }
}

// a hand-written (non-async) future return: the bounds the user wrote, no more (in particular no `Send`)
#[entrait(R20)]
fn r20(deps: &impl Dep, n: u8) -> impl core::future::Future<Output = u8> {
    let local = std::rc::Rc::new(n);
    async move { *local }
}
#[entrait(R21)]
fn r21(deps: &impl Dep, n: u8) -> impl core::future::Future<Output = u8> + Send + 'static {
    async move { n }
}
#[entrait(pub RFutMod)]
pub mod r_fut_mod {
    use super::Dep;
    pub fn local_future(deps: &impl Dep, n: u8) -> impl core::future::Future<Output = u8> {
        let local = std::rc::Rc::new(n);
        async move { *local }
    }
    pub async fn sendable(deps: &impl Dep, n: u8) -> u8 {
        n
    }
}
