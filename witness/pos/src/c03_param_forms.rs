//! props: C03 C14 C01
//! Forms of (non-dependency) parameter types: the trait method declares exactly the written type and the
//! delegating call passes the parameter on as it is (no conversion, no re-borrow through another type).
use entrait::*;

pub trait Dep {}

#[entrait(Q01)]
fn q01(deps: &impl Dep, s: &String, v: &Vec<u8>) -> usize {
    s.len() + v.len()
}
#[entrait(Q02)]
fn q02(deps: &impl Dep, s: &mut String, v: &mut Vec<u8>) {
    s.push('a');
    v.push(1);
}
#[entrait(Q03)]
fn q03(deps: &impl Dep, f: impl Fn(i32) -> i32, g: &dyn Fn(i32) -> i32, h: Box<dyn Fn(i32) -> i32 + Send>) -> i32 {
    f(1) + g(2) + h(3)
}
#[entrait(Q04)]
fn q04(deps: &impl Dep, f: impl FnOnce() -> String + Send, g: &mut dyn FnMut(u8)) -> String {
    g(1);
    f()
}
#[entrait(Q05)]
fn q05(deps: &impl Dep, a: std::borrow::Cow<'_, str>, b: Option<&str>, c: &[String], d: &Box<str>, e: &std::path::PathBuf) -> usize {
    a.len() + c.len()
}
#[entrait(Q06)]
fn q06(deps: &impl Dep, a: std::rc::Rc<u8>, b: std::sync::Arc<String>, c: [u8; 4], d: (u8, &str), e: *const u8) -> u8 {
    *a
}
#[entrait(Q07)]
async fn q07(deps: &impl Dep, s: &String, v: &Vec<u8>, f: impl Fn(i32) -> i32 + Send) -> usize {
    s.len() + v.len() + f(1) as usize
}
#[entrait(pub QMod)]
pub mod q_mod {
    use super::Dep;
    pub fn m01(deps: &impl Dep, s: &String, v: &Vec<u8>) -> usize {
        s.len() + v.len()
    }
    pub async fn m02(deps: &impl Dep, s: &String, f: impl Fn(i32) -> i32 + Send) -> usize {
        s.len() + f(1) as usize
    }
}
#[entrait(Q08, no_deps)]
fn q08(s: &String, v: &Vec<u8>) -> usize {
    s.len() + v.len()
}
