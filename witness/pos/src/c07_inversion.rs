//! props: C07 C01 C14
//! Dependency inversion, static and dynamic; competing targets with identical method names.
use entrait::*;

pub trait Extra {
    fn extra(&self) -> i32;
}

// ---- static ----
#[entrait(RepoImpl, delegate_by = DelegateRepo)]
pub trait Repo {
    fn fetch(&self, a: i32, b: i32) -> i32;
    fn store(&self, a: i32, b: i32) -> i32;
    fn zero(&self);
}

pub struct TargetA;
pub struct TargetB;

#[entrait]
impl RepoImpl for TargetA {
    pub fn fetch<D>(deps: &D, a: i32, b: i32) -> i32 {
        a - b
    }
    pub fn store<D: Extra>(deps: &D, a: i32, b: i32) -> i32 {
        deps.extra() - a - b
    }
    pub fn zero<D>(deps: &D) {}
}

#[entrait]
impl RepoImpl for TargetB {
    fn fetch<D>(deps: &D, a: i32, b: i32) -> i32 {
        b - a
    }
    fn store(deps: &impl Extra, a: i32, b: i32) -> i32 {
        0
    }
    fn zero<D>(deps: &D) {}
}

pub struct AppA;
impl DelegateRepo<Self> for AppA {
    type Target = TargetA;
}
impl Extra for Impl<AppA> {
    fn extra(&self) -> i32 {
        1
    }
}
fn client_static(app: &Impl<AppA>) -> i32 {
    app.fetch(1, 2) + app.store(1, 2)
}

// ---- dynamic ----
#[entrait(DynRepoImpl, delegate_by = ref)]
pub trait DynRepo {
    fn fetch(&self, a: i32, b: i32) -> i32;
    fn store(&self, a: i32, b: i32) -> i32;
}

pub struct DynTargetA;
pub struct DynTargetB;

#[entrait(ref)]
impl DynRepoImpl for DynTargetA {
    pub fn fetch<D>(deps: &D, a: i32, b: i32) -> i32 {
        a - b
    }
    pub fn store<D: Extra>(deps: &D, a: i32, b: i32) -> i32 {
        deps.extra()
    }
}

#[entrait(dyn)]
impl DynRepoImpl for DynTargetB {
    fn fetch<D>(deps: &D, a: i32, b: i32) -> i32 {
        b - a
    }
    fn store<D>(deps: &D, a: i32, b: i32) -> i32 {
        0
    }
}

// ---- dynamic via Borrow ----
#[entrait(BorRepoImpl, delegate_by = Borrow)]
pub trait BorRepo {
    fn fetch(&self, a: i32, b: i32) -> i32;
}

// ---- lifetimes (issue 29 shape) ----
#[entrait(LtRepoImpl, delegate_by = DelegateLtRepo)]
pub trait LtRepo {
    fn pick<'a>(&self, x: &'a str, y: &'a str) -> &'a str;
}
pub struct LtTarget;
#[entrait]
impl LtRepoImpl for LtTarget {
    fn pick<'a, D>(deps: &D, x: &'a str, y: &'a str) -> &'a str {
        y
    }
}

// ---- async, static ----
#[entrait(AsyncRepoImpl, delegate_by = DelegateAsyncRepo)]
pub trait AsyncRepo {
    async fn fetch(&self, a: i32, b: i32) -> i32;
    async fn store(&self, a: i32, b: i32) -> i32;
}
pub struct AsyncTarget;
#[entrait]
impl AsyncRepoImpl for AsyncTarget {
    async fn fetch<D>(deps: &D, a: i32, b: i32) -> i32 {
        a - b
    }
    async fn store<D>(deps: &D, a: i32, b: i32) -> i32 {
        b - a
    }
}

// ---- async, dynamic (needs async_trait) ----
#[entrait(AsyncDynRepoImpl, delegate_by = ref)]
#[async_trait::async_trait]
pub trait AsyncDynRepo {
    async fn fetch(&self, a: i32, b: i32) -> i32;
}
pub struct AsyncDynTarget;
#[entrait(ref)]
#[async_trait::async_trait]
impl AsyncDynRepoImpl for AsyncDynTarget {
    async fn fetch<D>(deps: &D, a: i32, b: i32) -> i32 {
        a - b
    }
}

// ---- dynamic delegation of a trait mixing sync and async methods (async_trait) ----
#[entrait(MixedDynImpl, delegate_by = ref)]
#[async_trait::async_trait]
pub trait MixedDyn {
    fn label(&self, prefix: &str) -> String;
    async fn total(&self, a: i32, b: i32) -> i32;
    fn plain(&self, a: i32, b: i32) -> i32;
}
pub struct MixedTarget;
#[entrait(ref)]
#[async_trait::async_trait]
impl MixedDynImpl for MixedTarget {
    fn label<D>(deps: &D, prefix: &str) -> String {
        prefix.to_string()
    }
    async fn total<D: Extra>(deps: &D, a: i32, b: i32) -> i32 {
        deps.extra() + a - b
    }
    fn plain<D>(deps: &D, a: i32, b: i32) -> i32 {
        a - b
    }
}
#[entrait(MixedBorImpl, delegate_by = Borrow)]
#[async_trait::async_trait]
pub trait MixedBor {
    fn label(&self, prefix: &str) -> String;
    async fn total(&self, a: i32, b: i32) -> i32;
}
// ---- static delegation of a mixed trait (no async_trait) ----
#[entrait(MixedStaticImpl, delegate_by = DelegateMixedStatic)]
pub trait MixedStatic {
    fn label(&self, prefix: &str) -> String;
    async fn total(&self, a: i32, b: i32) -> i32;
}
pub struct MixedStaticTarget;
#[entrait]
impl MixedStaticImpl for MixedStaticTarget {
    fn label<D>(deps: &D, prefix: &str) -> String {
        prefix.to_string()
    }
    async fn total<D>(deps: &D, a: i32, b: i32) -> i32 {
        a - b
    }
}

// the functions of one impl block need the SAME generic dependency trait at two different type arguments;
// the dependency's own `Impl<T>` impl is conditional on `T` (an entraited generic trait), so a dropped bound shows
#[entrait(unimock = false)]
pub trait Decode<V: 'static> {
    fn decode(&self, raw: &str) -> V;
}
#[entrait(ReportImpl, delegate_by = DelegateReport, unimock = false)]
pub trait Report {
    fn count(&self, raw: &str) -> u32;
    fn label(&self, raw: &str) -> String;
    fn both(&self, raw: &str) -> (u32, String);
}
pub struct ReportTarget;
#[entrait]
impl ReportImpl for ReportTarget {
    fn count(deps: &impl Decode<u32>, raw: &str) -> u32 {
        deps.decode(raw)
    }
    fn label(deps: &impl Decode<String>, raw: &str) -> String {
        deps.decode(raw)
    }
    fn both<D>(deps: &D, raw: &str) -> (u32, String)
    where
        D: Decode<u32> + Decode<String>,
    {
        (deps.decode(raw), deps.decode(raw))
    }
}
#[entrait(ReportDynImpl, delegate_by = ref, unimock = false)]
pub trait ReportDyn {
    fn count(&self, raw: &str) -> u32;
    fn label(&self, raw: &str) -> String;
}
pub struct ReportDynTarget;
#[entrait(ref)]
impl ReportDynImpl for ReportDynTarget {
    fn count(deps: &impl Decode<u32>, raw: &str) -> u32 {
        deps.decode(raw)
    }
    fn label(deps: &impl Decode<String>, raw: &str) -> String {
        deps.decode(raw)
    }
}

// impl blocks for two instantiations of one generic target type (`Backend<Fast>`, `Backend<Slow>`):
// the type as written in the impl header is not a valid expression path, the functions are reached as `Self::f`
pub struct Fast;
pub struct Slow;
pub struct Backend<M>(pub core::marker::PhantomData<M>);
#[entrait(QueueImpl, delegate_by = DelegateQueue, unimock = false)]
pub trait Queue {
    fn push(&self, a: u8) -> u8;
}
#[entrait]
impl QueueImpl for Backend<Fast> {
    fn push<D>(deps: &D, a: u8) -> u8 {
        a
    }
}
#[entrait]
impl QueueImpl for Backend<Slow> {
    fn push<D>(deps: &D, a: u8) -> u8 {
        a + 1
    }
}
#[entrait(QueueDynImpl, delegate_by = ref, unimock = false)]
pub trait QueueDyn {
    fn push_dyn(&self, a: u8) -> u8;
}
#[entrait(ref)]
impl QueueDynImpl for Backend<Fast> {
    fn push_dyn<D>(deps: &D, a: u8) -> u8 {
        a
    }
}
#[entrait(ref)]
impl QueueDynImpl for (Backend<Slow>) {
    fn push_dyn<D>(deps: &D, a: u8) -> u8 {
        a + 1
    }
}
