//! props: C07 C03
//! Delegated traits whose METHODS have their own type / const parameters and where clauses: the
//! functions of the impl block keep those parameters on the generated trait-impl methods (the
//! delegation-target trait `TraitImpl<T>` is derived from the user's trait and takes `T` only).
use entrait::*;

pub trait Extra {
    fn extra(&self) -> u8;
}

#[entrait(GmImpl, delegate_by = DelegateGm, unimock = false)]
pub trait Gm {
    fn count<I: Iterator<Item = u8>>(&self, i: I) -> usize;
    fn first_of<const N: usize>(&self, a: [u8; N]) -> u8;
    fn both<'a, A: Clone, const M: usize>(&self, a: &'a A, b: [A; M]) -> &'a A
    where
        A: Send;
    fn plain(&self) -> u8;
}

pub struct GmTarget;
#[entrait]
impl GmImpl for GmTarget {
    fn count<D, I: Iterator<Item = u8>>(deps: &D, i: I) -> usize {
        i.count()
    }
    fn first_of<const N: usize>(deps: &impl Extra, a: [u8; N]) -> u8 {
        a[0] + deps.extra()
    }
    fn both<'a, D, A: Clone, const M: usize>(deps: &D, a: &'a A, b: [A; M]) -> &'a A
    where
        A: Send,
        D: Extra,
    {
        a
    }
    fn plain<D>(deps: &D) -> u8 {
        1
    }
}

pub struct GmOther;
#[entrait]
impl GmImpl for GmOther {
    fn count<I: Iterator<Item = u8>, D>(deps: &D, i: I) -> usize {
        0
    }
    fn first_of<D, const N: usize>(deps: &D, a: [u8; N]) -> u8 {
        0
    }
    fn both<'a, A: Clone, const M: usize>(deps: &impl Extra, a: &'a A, b: [A; M]) -> &'a A
    where
        A: Send,
    {
        a
    }
    fn plain<D>(deps: &D) -> u8 {
        2
    }
}

pub struct App;
impl DelegateGm<App> for App {
    type Target = GmTarget;
}
impl Extra for Impl<App> {
    fn extra(&self) -> u8 {
        1
    }
}
fn client(app: &Impl<App>) -> usize {
    app.count([1u8].into_iter()) + app.first_of([1, 2]) as usize + *app.both(&1u8, [2u8]) as usize + app.plain() as usize
}
