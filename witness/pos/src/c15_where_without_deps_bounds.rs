//! props: C15 C03 C04
//! No bound on the dependency (no_deps, or an unbounded generic) while a where-predicate on ANOTHER
//! generic parameter is lifted to the generated trait and impl: the impl's where clause starts with the
//! lifted predicate (no dangling separator).
use entrait::*;

#[entrait(Largest, no_deps)]
fn largest<T>(v: Vec<T>) -> Option<T>
where
    T: Ord,
{
    v.into_iter().max()
}
#[entrait(Describe)]
fn describe<D, T>(deps: &D, t: T) -> usize
where
    T: core::fmt::Debug,
{
    1
}
#[entrait(DescribeTwo)]
fn describe_two<D, T, U>(deps: &D, t: T, u: U) -> usize
where
    T: core::fmt::Debug,
    U: Clone + Send,
{
    1
}
#[entrait(pub Convert, no_deps)]
pub mod convert {
    pub fn to_vec<T>(t: T) -> Vec<T>
    where
        T: Clone,
    {
        vec![t.clone(), t]
    }
}
#[entrait(pub ConvertDeps)]
pub mod convert_deps {
    pub fn to_vec2<D, T>(deps: &D, t: T) -> Vec<T>
    where
        T: Clone,
    {
        vec![t.clone(), t]
    }
}
#[entrait(LargestAsync, no_deps)]
async fn largest_async<T>(v: Vec<T>) -> Option<T>
where
    T: Ord + Send,
{
    v.into_iter().max()
}
