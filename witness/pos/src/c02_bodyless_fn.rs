//! props: C02 C15 C08
//! Function DECLARATIONS without a body inside an entraited module / impl block. They are valid
//! input to an attribute macro (the missing body is only diagnosed after expansion), e.g. when a
//! `#[cfg]` removes them or another attribute macro supplies the body. entrait must re-emit them
//! untouched (with their visibility exactly once and their terminating `;`).
use entrait::*;

#[entrait(pub Bodyless)]
pub mod bodyless {
    pub fn before<D>(deps: &D) -> u8 {
        1
    }
    #[cfg(any())]
    pub fn removed_pub(customer: &str) -> u64;
    #[cfg(any())]
    fn removed_private(customer: &str) -> u64;
    #[cfg(any())]
    pub(crate) async unsafe fn removed_quals<T>(customer: &T) -> u64
    where
        T: Sized;
    #[once::returns(21)]
    pub fn supplied_pub() -> i32;
    #[once::returns(22)]
    fn supplied_private() -> i32;
    #[once::returns(23)]
    pub(crate) fn supplied_crate() -> i32;
    pub fn after<D>(deps: &D) -> i32 {
        supplied_pub() + supplied_private() + supplied_crate()
    }
}

#[entrait(HolderImpl, delegate_by = DelegateHolder)]
pub trait HolderTrait {
    fn first(&self) -> u8;
    fn last(&self) -> i32;
}
pub struct Holder;
#[entrait]
impl HolderImpl for Holder {
    pub fn first<D>(deps: &D) -> u8 {
        1
    }
    #[cfg(any())]
    pub fn removed_pub(customer: &str) -> u64;
    #[cfg(any())]
    fn removed_private(customer: &str) -> u64;
    #[once::returns(31)]
    pub fn supplied_pub() -> i32;
    #[once::returns(32)]
    fn supplied_private() -> i32;
    pub fn last<D>(deps: &D) -> i32 {
        Self::supplied_pub() + Self::supplied_private()
    }
}

pub struct App;
impl DelegateHolder<App> for App {
    type Target = Holder;
}
fn client(app: &Impl<()>, app2: &Impl<App>) -> i32 {
    app.before() as i32 + app.after() + app2.first() as i32 + app2.last()
}
