//! props: C02 C07
//! Impl blocks: every item is re-emitted in order inside the inherent impl.
use entrait::*;

#[entrait(StoreImpl, delegate_by = DelegateStore)]
pub trait Store {
    fn get(&self, k: u8) -> u8;
    fn put(&self, k: u8, v: u8) -> u8;
}

pub struct MemStore;

#[entrait]
#[allow(clippy::all)]
impl StoreImpl for MemStore {
    pub const LIMIT: u8 = 3;
    /// documented
    #[inline]
    pub fn get<D>(deps: &D, k: u8) -> u8 {
        Self::helper(k)
    }
    pub const OTHER: u8 = 1;
    pub fn put<D>(deps: &D, k: u8, v: u8) -> u8 {
        k + v + Self::LIMIT + Self::OTHER
    }
}
impl MemStore {
    fn helper(k: u8) -> u8 {
        k
    }
}

pub struct OtherStore;

#[entrait]
#[mockall::automock]
#[once::once]
impl StoreImpl for OtherStore {
    pub fn get<D>(deps: &D, k: u8) -> u8 {
        k
    }
    pub fn put<D>(deps: &D, k: u8, v: u8) -> u8 {
        v
    }
}

// `const fn` inside an entraited impl block stays `const` on the re-emitted inherent impl: the
// compiler evaluates it in the constants below (nothing is run).
#[entrait(LimitsImpl, delegate_by = DelegateLimits)]
pub trait Limits {
    fn max_retries(&self) -> u32;
    fn scaled(&self, by: u32) -> u32;
}

pub struct StaticLimits;

#[entrait]
impl LimitsImpl for StaticLimits {
    pub const fn max_retries<D>(_deps: &D) -> u32 {
        3
    }
    pub const fn scaled<D>(_deps: &D, by: u32) -> u32 {
        by * 2
    }
}

pub const RETRIES: u32 = StaticLimits::max_retries(&());
pub static SLOTS: [u8; StaticLimits::scaled(&(), 2) as usize] = [0; 4];
const _: () = assert!(RETRIES == 3);
