//! props: C02 C07
//! Impl blocks: every item is re-emitted in order inside the inherent impl.
use entrait::*;

#[entrait(StoreImpl, delegate_by = DelegateStore)]
pub trait Store {
    fn get(&self, k: u8) -> u8;
    fn put(&self, k: u8, v: u8) -> u8;
}

pub struct MemStore;

#[entrait]
#[allow(clippy::all)]
impl StoreImpl for MemStore {
    pub const LIMIT: u8 = 3;
    /// documented
    #[inline]
    pub fn get<D>(deps: &D, k: u8) -> u8 {
        Self::helper(k)
    }
    pub const OTHER: u8 = 1;
    pub fn put<D>(deps: &D, k: u8, v: u8) -> u8 {
        k + v + Self::LIMIT + Self::OTHER
    }
}
impl MemStore {
    fn helper(k: u8) -> u8 {
        k
    }
}

pub struct OtherStore;

#[entrait]
#[mockall::automock]
#[once::once]
impl StoreImpl for OtherStore {
    pub fn get<D>(deps: &D, k: u8) -> u8 {
        k
    }
    pub fn put<D>(deps: &D, k: u8, v: u8) -> u8 {
        v
    }
}
