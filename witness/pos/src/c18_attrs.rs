//! props: C18 C02
//! Foreign attributes stay where the user put them.
use entrait::*;

#[entrait(AttrFnCfgAttr)]
#[cfg_attr(all(), doc = "M22")]
#[cfg_attr(any(), doc = "never")]
fn attr_fn_cfg_attr<D>(deps: &D, a: u8) -> u8 {
    a
}

#[entrait(AttrFn)]
#[doc = "M01"]
#[must_use = "M02"]
#[deprecated(note = "M03")]
#[allow(unused)]
#[once::once]
pub fn attr_fn<D>(#[allow(unused)] deps: &D, #[allow(unused_variables)] a: u8, #[cfg(all())] b: u8) -> u8 {
    a - b
}

#[entrait(AttrAsync)]
#[doc = "M04"]
#[once::once]
pub async fn attr_async<D>(deps: &D, #[allow(unused_variables)] a: u8) -> u8 {
    a
}

#[entrait(AttrNoDeps, no_deps)]
#[doc = "M05"]
fn attr_no_deps(#[allow(unused_variables)] a: u8, #[cfg(all())] b: u8) -> u8 {
    a
}

#[entrait(pub AttrMod)]
#[doc = "M06"]
pub mod attr_mod {
    #[doc = "M07"]
    #[must_use = "M08"]
    #[once::once]
    pub fn in_mod<D>(deps: &D, #[allow(unused_variables)] a: u8) -> u8 {
        a
    }
    #[doc = "M09"]
    #[cfg(all())]
    pub fn in_mod_cfg<D>(deps: &D) {}
}

#[entrait]
#[doc = "M10"]
pub trait AttrTrait {
    #[doc = "M11-mirrored"]
    fn kept(&self, a: u8) -> u8;
    #[cfg(all())]
    fn cfg_on(&self);
    #[cfg(any())]
    fn cfg_off(&self);
    #[doc = "M15-mirrored"]
    async fn kept_async(&self, a: u8) -> u8;
    #[cfg(all())]
    async fn cfg_on_async(&self);
    #[cfg(any())]
    async fn cfg_off_async(&self);
}

#[entrait(AttrInvImpl, delegate_by = DelegateAttrInv)]
#[doc = "M16"]
#[deprecated(note = "M17")]
#[allow(clippy::M18)]
pub trait AttrInv {
    #[doc = "M12-mirrored3"]
    fn one(&self, a: u8) -> u8;
    #[cfg(any())]
    fn cfg_off(&self);
}
pub struct AttrTarget;
#[entrait]
#[doc = "M13"]
impl AttrInvImpl for AttrTarget {
    #[doc = "M14"]
    #[cfg_attr(all(), doc = "M21")]
    #[cfg(all())]
    #[once::once]
    pub fn one<D>(deps: &D, #[allow(unused_variables)] a: u8) -> u8 {
        a
    }
}

pub struct Wrapper(pub u8);

/// attributes on parameters written as patterns (not plain identifiers)
#[entrait(AttrPatternParams)]
fn attr_pattern_params<D>(
    deps: &D,
    #[allow(unused_variables)] (a, b): (u8, u8),
    #[allow(unused_variables)] _: u8,
    #[allow(unused_variables)] Wrapper(x): Wrapper,
    #[allow(unused_variables)] &Wrapper(y): &Wrapper,
    #[allow(unused_variables)] [p, _]: [u8; 2],
) -> u8 {
    a - b - x - y - p
}
#[entrait(AttrPatternNoDeps, no_deps)]
fn attr_pattern_no_deps(#[allow(unused_variables)] (a, b): (u8, u8), #[allow(unused_variables)] _: u8) -> u8 {
    a - b
}
#[entrait(pub AttrPatternMod)]
pub mod attr_pattern_mod {
    pub fn in_mod_pattern<D>(deps: &D, #[allow(unused_variables)] (a, b): (u8, u8), #[allow(unused_variables)] _: u8) -> u8 {
        a - b
    }
}
#[entrait(AttrPatImpl, delegate_by = DelegateAttrPat)]
pub trait AttrPat {
    fn one(&self, ab: (u8, u8), c: u8) -> u8;
}
pub struct AttrPatTarget;
#[entrait]
impl AttrPatImpl for AttrPatTarget {
    pub fn one<D>(deps: &D, #[allow(unused_variables)] (a, b): (u8, u8), #[allow(unused_variables)] _: u8) -> u8 {
        a - b
    }
}

// trait-level attributes of a trait with a DYNAMIC delegation target stay on the trait as well
#[entrait(AttrDynImpl, delegate_by = ref)]
#[doc = "M19"]
#[must_use = "M20"]
pub trait AttrDyn {
    fn one(&self, a: u8) -> u8;
}
