//! props: C04
//! Every way of declaring dependency bounds; the impl must apply exactly to the types that
//! satisfy them (plus the fixed Sync + 'static, and Send for by-value receivers).
use entrait::*;

pub trait DepA {
    fn a(&self) -> i32;
}
pub trait DepB {}
pub trait DepG<T> {}

#[entrait(B0)]
fn b0<D>(deps: &D) {}
#[entrait(B1)]
fn b1<D: DepA>(deps: &D) {}
#[entrait(B2)]
fn b2<D>(deps: &D)
where
    D: DepA + DepB,
{
}
#[entrait(B3)]
fn b3(deps: &(impl DepA + DepB)) {}
#[entrait(B4)]
fn b4<D: DepA>(deps: &D)
where
    D: DepB,
{
}
#[entrait(B5)]
fn b5<D: DepG<u8> + DepG<u16>>(deps: &D) {}
#[entrait(B6)]
fn b6<D: DepA + Clone>(deps: D) {}
#[entrait(B7)]
fn b7<D, T>(deps: &D, t: T)
where
    D: DepG<T>,
    T: Clone,
{
}
#[entrait(B8, mockall)]
fn b8<D: DepA + DepB>(deps: &D) {}
#[entrait(B9)]
fn b9<D>(deps: &D)
where
    D: DepA,
    D: DepB,
    D: DepG<()>,
{
}
/// bounds that are themselves entrait-generated traits
#[entrait(B10)]
fn b10(deps: &(impl B0 + B1 + B9)) {
    deps.b0();
    deps.b1();
}

#[entrait(pub BM)]
pub mod bm {
    use super::*;
    pub fn f<D: DepA>(deps: &D) {}
    pub fn g<D>(deps: &D)
    where
        D: DepB,
    {
    }
    pub fn h(deps: &impl DepG<u8>) {}
    pub fn i<D>(deps: &D) {}
}

#[entrait(pub BMFirstUnbounded)]
pub mod bm_first_unbounded {
    use super::*;
    pub fn i<D>(deps: &D) {}
    pub fn f<D: DepA>(deps: &D) {}
}

#[entrait(pub BMMock, mockall)]
pub mod bm_mock {
    use super::*;
    pub fn f<D: DepA>(deps: &D, x: u8) {}
    pub fn g<D: DepB>(deps: &D, y: u8) {}
}

// by-value deps anywhere in a module: `T: Send` is required exactly when SOME method takes self by value
#[entrait(pub BMValueLast)]
pub mod bm_value_last {
    use super::*;
    pub fn r1<D: DepA>(deps: &D) {}
    pub fn r2(deps: &impl DepB) {}
    pub fn v<D: DepA>(deps: D) {}
}
#[entrait(pub BMValueMiddle, ?Send)]
pub mod bm_value_middle {
    use super::*;
    pub fn r1<D: DepA>(deps: &D) {}
    pub fn v(deps: impl DepB) {}
    pub fn r2<D>(deps: &D) {}
}
#[entrait(BValueNoSend, ?Send)]
fn b_value_no_send(deps: impl DepA) {}
#[entrait(BValueNoSendAsync, ?Send)]
async fn b_value_no_send_async<D: DepA>(deps: D) {}
