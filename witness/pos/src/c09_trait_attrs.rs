//! props: C09 C18
//! Attributes and doc comments on an entraited trait and on its methods must survive.
use entrait::*;

#[entrait]
/// Documented trait .
#[allow(clippy::needless_lifetimes)]
#[must_use = "M-trait"]
pub trait Documented {
    /// Documented method.
    #[must_use = "M-method"]
    fn one(&self, a: u8) -> u8;
    /// Second.
    #[allow(unused)]
    fn two<'a>(&'a self, a: &'a str) -> &'a str;
}

#[entrait(DocInvImpl, delegate_by = DelegateDocInv)]
/// Documented trait with a delegation target.
#[deprecated(note = "M-deprecated")]
pub trait DocInv {
    /// Documented method.
    fn one(&self, a: u8) -> u8;
}
