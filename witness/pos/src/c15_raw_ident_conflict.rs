//! props: C15 C16
//! Raw identifiers as function and parameter names, including a parameter equal to the function name.
use entrait::*;

#[entrait(RawType)]
fn r#type<D>(deps: &D, r#type: i32, r#match: i32) -> i32 {
    r#type - r#match
}
#[entrait(RawParams)]
fn raw_params<D>(deps: &D, r#fn: i32, r#loop: i32) -> i32 {
    r#fn - r#loop
}
#[entrait(RawNoDeps, no_deps)]
fn r#struct(r#struct: i32, r#enum: i32) -> i32 {
    r#struct - r#enum
}
