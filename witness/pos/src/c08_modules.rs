//! props: C08 C01 C02
//! Module mode: exactly the functions written with a visibility qualifier directly in the module
//! become trait methods, in source order; nothing nested, private or body-less does.
use entrait::*;

#[entrait(pub Quals)]
pub mod quals {
    pub fn plain<D>(deps: &D, a: u8) -> u8 {
        a
    }
    fn private_plain<D>(deps: &D, a: u8) -> u8 {
        a
    }
    pub async fn q_async<D>(deps: &D, a: u8) -> u8 {
        a
    }
    async fn private_async<D>(deps: &D, a: u8) -> u8 {
        a
    }
    pub unsafe fn q_unsafe<D>(deps: &D, a: u8) -> u8 {
        a
    }
    unsafe fn private_unsafe<D>(deps: &D, a: u8) -> u8 {
        a
    }
    pub extern "C" fn q_extern<D>(deps: &D, a: u8) -> u8 {
        a
    }
    extern "C" fn private_extern<D>(deps: &D, a: u8) -> u8 {
        a
    }
    pub unsafe extern "C" fn q_unsafe_extern<D>(deps: &D, a: u8) -> u8 {
        a
    }
    pub async unsafe fn q_async_unsafe<D>(deps: &D, a: u8) -> u8 {
        a
    }
    pub(crate) fn v_crate<D>(deps: &D, a: u8) -> u8 {
        a
    }
    pub(super) fn v_super<D>(deps: &D, a: u8) -> u8 {
        a
    }
    pub(in crate::c08_modules) fn v_in<D>(deps: &D, a: u8) -> u8 {
        a
    }
    pub(self) fn v_self<D>(deps: &D, a: u8) -> u8 {
        a
    }
    pub(crate) async fn v_crate_async<D>(deps: &D, a: u8) -> u8 {
        a
    }
    /// documented
    #[inline]
    pub fn with_attrs<D>(deps: &D, a: u8) -> u8 {
        a
    }
}

#[entrait(pub Mixed)]
pub mod mixed {
    use core::fmt::Debug;

    pub struct HasFnField {
        pub f: fn(u8) -> u8,
    }
    impl HasFnField {
        pub fn in_impl(&self, a: u8) -> u8 {
            (self.f)(a)
        }
    }
    pub fn first<D>(deps: &D, a: u8) -> u8 {
        a
    }
    pub mod nested {
        pub fn in_nested<D>(deps: &D, a: u8) -> u8 {
            a
        }
    }
    extern "C" {
        pub fn in_extern_block(a: u8) -> u8;
    }
    macro_rules! make_fn {
        () => {
            pub fn from_macro_rules() {}
        };
    }
    pub const IN_CONST: u8 = {
        pub const fn in_const_block() -> u8 {
            1
        }
        in_const_block()
    };
    pub static FN_STATIC: fn(u8) -> u8 = id;
    pub type FnAlias = fn(u8) -> u8;
    pub const FN_CONST: fn(u8) -> u8 = id;
    fn id(a: u8) -> u8 {
        a
    }
    pub trait InnerTrait {
        fn in_trait(&self);
    }
    pub unsafe trait UnsafeInner {}
    pub fn second<D: Debug>(deps: &D, a: u8) -> u8 {
        a
    }
    pub enum E {
        A,
    }
    pub union U {
        pub a: u8,
    }
    pub fn third<D>(deps: &D, x: [u8; { 1 + 1 }]) -> u8
    where
        D: Debug,
    {
        x[0]
    }
}

/// opaque (non-visible-fn) items containing a bare `=` outside any delimiter group and ending in a
/// brace group, not in `;` — each followed by a visible fn that must still get its method
#[entrait(pub OpaqueEq)]
pub mod opaque_eq {
    pub const LIMIT: u32 = 3;
    fn capped(v: &[u32]) -> impl Iterator<Item = u32> + '_ {
        v.iter().copied().take(LIMIT as usize)
    }
    pub fn total<D>(deps: &D, v: &[u32]) -> u32 {
        capped(v).sum()
    }
    fn generic_eq<I: Iterator<Item = u8>>(i: I) -> usize {
        i.count()
    }
    pub(crate) fn count<D>(deps: &D, v: &[u8]) -> usize {
        generic_eq(v.iter().copied())
    }
    pub struct Defaulted<T = u32> {
        pub t: T,
    }
    pub fn after_struct<D>(deps: &D) -> u8 {
        1
    }
    impl<T> Defaulted<T>
    where
        T: IntoIterator<Item = u8>,
    {
        pub fn in_impl(self) -> usize {
            self.t.into_iter().count()
        }
    }
    pub fn after_impl<D>(deps: &D) -> u8 {
        2
    }
    pub trait WithDefaultParam<Rhs = Self> {
        fn cmp_to(&self, rhs: &Rhs) -> bool;
    }
    pub fn after_trait<D>(deps: &D) -> u8 {
        3
    }
    pub enum Either<L = u8, R = L> {
        L(L),
        R(R),
    }
    pub static NAME: &str = "stats";
    pub fn name<D>(deps: &D) -> &'static str {
        NAME
    }
    pub const POINT: Defaulted = Defaulted { t: 1 };
    pub const COND: u8 = if LIMIT > 2 { 1 } else { 2 };
    pub fn last<D>(deps: &D) -> u8 {
        COND
    }
}

/// a `macro_rules!` helper defined in the module and used in the SIGNATURE of a visible fn (textual scope: what
/// the macro generates from the signature has to come after the helper's definition)
#[entrait(pub Ledger)]
pub mod ledger {
    macro_rules! Res {
        ($t:ty) => { Result<$t, ()> };
    }
    pub fn balance<D>(deps: &D, account: u32) -> Res!(i64) {
        Ok(account as i64)
    }
    macro_rules! Amount {
        () => { i64 };
    }
    pub fn deposit<D>(deps: &D, amount: Amount!()) -> Res!(Amount!()) {
        Ok(amount)
    }
}

/// `no_deps` module: visible functions WITHOUT any parameter are methods too (the receiver is inserted)
#[entrait(pub Settings, no_deps)]
pub mod settings {
    pub const fn default_port() -> u16 {
        8080
    }
    pub(crate) fn app_name() -> &'static str {
        "app"
    }
    pub fn port_or_default(port: Option<u16>) -> u16 {
        match port {
            Some(p) => p,
            None => default_port(),
        }
    }
    pub async fn nothing() {}
    fn private_no_param() {}
}

/// a path-restricted trait visibility in module mode
#[entrait(pub(in crate::c08_modules) PathVis)]
pub mod path_vis {
    pub fn pv<D>(deps: &D, a: u8) -> u8 {
        a
    }
}

#[entrait(Empty)]
mod empty {}

#[entrait(OnlyPrivate)]
mod only_private {
    fn hidden<D>(deps: &D) {}
    pub struct S;
}

fn client_opaque_eq(app: &Impl<()>) -> u32 {
    app.total(&[1]) + app.count(&[1]) as u32 + (app.after_struct() + app.after_impl() + app.after_trait() + app.last()) as u32
        + app.name().len() as u32
}
fn client(app: &Impl<()>) -> u8 {
    app.plain(1) + app.v_crate(1) + app.v_self(1) + app.first(1) + app.second(1) + app.third([1, 2])
}
