//! props: C03
//! const generics (inline and with where bounds) next to type and lifetime generics.
use entrait::*;

#[entrait(CgArr)]
fn cg_arr<D, const N: usize>(deps: &D, a: [u8; N], b: [u8; N]) -> [u8; N] {
    b
}
#[entrait(CgMixed)]
fn cg_mixed<'a, D, T: Clone, const N: usize, const M: usize>(deps: &D, a: &'a [T; N], b: [T; M]) -> &'a [T; N] {
    a
}
#[entrait(CgConcrete)]
fn cg_concrete<const N: usize>(deps: &u8, a: [u8; N]) -> usize {
    N
}
#[entrait(CgNoDeps, no_deps)]
fn cg_no_deps<const N: usize>(a: [u8; N]) -> usize {
    N
}
#[entrait(pub CgMod)]
pub mod cg_mod {
    pub fn in_mod<D, const N: usize>(deps: &D, a: [u8; N]) -> usize {
        N
    }
}

// const parameters declared BEFORE type parameters (allowed since Rust 1.59): the trait's parameter
// list and the argument list of `impl Trait<..> for ..` must use the same order
#[entrait(CgConstFirst)]
fn cg_const_first<const N: usize, T: Clone>(deps: &impl core::any::Any, item: T) -> [T; N] {
    core::array::from_fn(|_| item.clone())
}
#[entrait(CgConstFirstD)]
fn cg_const_first_d<'a, const N: usize, D, T: Clone, const M: usize, U>(deps: &D, a: &'a [T; N], b: [U; M]) -> &'a [T; N] {
    a
}
#[entrait(CgConstFirstNoDeps, no_deps)]
fn cg_const_first_no_deps<const N: usize, T>(a: [T; N]) -> usize {
    N
}
#[entrait(CgConstFirstConcrete)]
fn cg_const_first_concrete<const N: usize, T>(deps: &u8, a: [T; N]) -> usize {
    N
}
#[entrait(pub CgConstFirstMod)]
pub mod cg_const_first_mod {
    pub fn in_mod_cf<const N: usize, T>(deps: &impl core::any::Any, a: [T; N]) -> usize {
        N
    }
}

fn w_cg_arr<A: Sync + 'static>() {
    let f: for<'x> fn(&'x Impl<A>, [u8; 3], [u8; 3]) -> [u8; 3] = cg_arr::<Impl<A>, 3>;
    let g: for<'x> fn(&'x Impl<A>, [u8; 3], [u8; 3]) -> [u8; 3] = <Impl<A> as CgArr<3>>::cg_arr;
}
