//! props: C02 C03
//! An entraited `unsafe fn` must stay unsafe (a caller must still need an `unsafe` block).
use entrait::*;

#[entrait(UnsafeFn)]
unsafe fn unsafe_fn<D>(deps: &D, p: *const u8) -> u8 {
    *p
}
#[entrait(pub UnsafeExtern)]
pub unsafe extern "C" fn unsafe_extern<D>(deps: &D, p: *const u8) -> u8 {
    *p
}

/// `unsafe` that is not the first qualifier
#[entrait(pub ConstUnsafe)]
pub const unsafe fn const_unsafe<D>(deps: &D, p: *const u8) -> u8 {
    *p
}
#[entrait(AsyncUnsafe)]
pub(crate) async unsafe fn async_unsafe<D>(deps: &D, v: &[u8]) -> u8 {
    *v.get_unchecked(0)
}
#[entrait(ConstUnsafeExtern, no_deps)]
const unsafe extern "C" fn const_unsafe_extern(p: *const u8) -> u8 {
    *p
}

#[deny(unused_unsafe)]
fn caller2(app: &Impl<()>, p: *const u8) -> u8 {
    unsafe { const_unsafe(app, p) + const_unsafe_extern(p) }
}

#[deny(unused_unsafe)]
fn caller(app: &Impl<()>, p: *const u8) -> u8 {
    // if the macro dropped `unsafe`, this block is unused and the lint (denied) rejects the module
    unsafe { unsafe_fn(app, p) }
}
