//! props: C02 C03
//! An entraited `unsafe fn` must stay unsafe (a caller must still need an `unsafe` block).
use entrait::*;

#[entrait(UnsafeFn)]
unsafe fn unsafe_fn<D>(deps: &D, p: *const u8) -> u8 {
    *p
}
#[entrait(pub UnsafeExtern)]
pub unsafe extern "C" fn unsafe_extern<D>(deps: &D, p: *const u8) -> u8 {
    *p
}

#[deny(unused_unsafe)]
fn caller(app: &Impl<()>, p: *const u8) -> u8 {
    // if the macro dropped `unsafe`, this block is unused and the lint (denied) rejects the module
    unsafe { unsafe_fn(app, p) }
}
