//! props: C01 C08 C04
//! A module whose functions share one signature: each method must reach its own function.
use entrait::*;

pub trait Dep {
    fn dep(&self) -> i32;
}

#[entrait(pub M4)]
pub mod m4 {
    pub fn f1<D>(deps: &D, a: i32, b: i32) -> i32 {
        a - b
    }
    pub fn f2<D>(deps: &D, a: i32, b: i32) -> i32 {
        a - b - 2
    }
    fn private<D>(deps: &D, a: i32, b: i32) -> i32 {
        0
    }
    pub fn f3<D>(deps: &D, a: i32, b: i32) -> i32 {
        private(deps, a, b) - 3
    }
    pub(crate) fn f4<D: super::Dep>(deps: &D, a: i32, b: i32) -> i32 {
        deps.dep() - a - b
    }
    pub async fn f5<D>(deps: &D, a: i32, b: i32) -> i32 {
        a - b - 5
    }
    pub fn f0<D>(deps: &D) {}
}

#[entrait(MOne)]
mod m_one {
    pub fn only<D>(deps: &D, (a, b): (i32, i32), c: i32) -> i32 {
        a - b - c
    }
}

impl Dep for Impl<()> {
    fn dep(&self) -> i32 {
        0
    }
}
fn client(app: &Impl<()>) -> i32 {
    app.f1(1, 2) + app.f2(1, 2) + app.only((1, 2), 3)
}
