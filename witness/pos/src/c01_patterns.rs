//! props: C01 C16 C03
//! Destructured / wildcard / renamed parameters.
use entrait::*;

pub struct N(pub i32);
pub struct P2(pub i32, pub i32);
pub struct S {
    pub a: i32,
}

#[entrait(P1)]
fn p1<D>(deps: &D, (a, b): (i32, i32), _: i32, N(c): N, S { a: d }: S, e: i32) -> i32 {
    a + b + c + d + e
}
#[entrait(P2x)]
fn p2x<D>(deps: &D, P2(x, _): P2, P2(_, y): P2, _: P2) -> i32 {
    x - y
}
#[entrait(P3)]
fn p3<D>(deps: &D, _: i32, _: i32, _: i32) {}
#[entrait(P4)]
fn p4<D>(_: &D, arg1: i32, _: i32, N(arg3): N, _: i32) -> i32 {
    arg1 - arg3
}
#[entrait(P5)]
fn p5<D>(deps: &D, &a: &i32, &(b, c): &(i32, i32)) -> i32 {
    a - b - c
}
/// a parameter named like the function
#[entrait(P6)]
fn p6<D>(deps: &D, p6: i32, other: i32) -> i32 {
    p6 - other
}
/// a parameter named like the function AFTER a destructured / wildcard parameter (every pass over
/// the parameter list has to visit every parameter)
#[entrait(P7)]
fn p7<D>(deps: &D, S { a: x }: S, p7: i32) -> i32 {
    x - p7
}
#[entrait(P8)]
fn p8<D>(deps: &D, _: i32, (a, b): (i32, i32), p8: i32, _: i32) -> i32 {
    a - b - p8
}
#[entrait(P9, no_deps)]
fn p9(N(n): N, p9: i32) -> i32 {
    n - p9
}
#[entrait(P10)]
fn p10(deps: &u8, _: i32, p10: i32) -> i32 {
    p10
}
#[entrait(pub PMod)]
pub mod p_mod {
    pub fn p11<D>(deps: &D, super::N(n): super::N, p11: i32) -> i32 {
        n - p11
    }
}

/// no_deps: the first parameter is an ordinary argument, with every binding mode
#[entrait(NdMut, no_deps)]
fn nd_mut(mut a: u8, b: u8) -> u8 {
    a += 1;
    a - b
}
#[entrait(NdRef, no_deps)]
fn nd_ref(ref a: u8, ref mut b: u8) -> u8 {
    *b += 1;
    *a - *b
}
#[entrait(NdAt, no_deps)]
fn nd_at(whole @ (x, _): (u8, u8), b: u8) -> u8 {
    whole.1 - x - b
}
#[entrait(DepsMutBinding)]
fn deps_mut_binding<D: Clone>(mut deps: D, mut a: u8, ref b: u8, c @ _: u8) -> u8 {
    a += 1;
    a - *b - c
}

/// functions NAMED with raw identifiers (the delegating call must keep the `r#`)
#[entrait(RawMatch)]
fn r#match<D>(deps: &D, a: i32) -> i32 {
    a
}
#[entrait(RawTypeNoDeps, no_deps)]
fn r#type(a: i32, b: i32) -> i32 {
    a - b
}
#[entrait(RawAsync)]
async fn r#loop(deps: &impl core::any::Any, a: i32) -> i32 {
    a
}
#[entrait(pub RawMod)]
pub mod raw_mod {
    pub fn r#move<D>(deps: &D, a: i32) -> i32 {
        a
    }
    pub fn r#fn<D>(deps: &D, r#fn: i32) -> i32 {
        r#fn
    }
}
