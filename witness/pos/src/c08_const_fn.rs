//! props: C08 C03
//! `const fn` in module and fn mode.
use entrait::*;

#[entrait(pub ConstMod)]
pub mod const_mod {
    pub const fn k<D>(deps: &D, a: u8) -> u8 {
        a
    }
    pub const unsafe fn ku<D>(deps: &D, a: u8) -> u8 {
        a
    }
    const fn private_const<D>(deps: &D, a: u8) -> u8 {
        a
    }
}

#[entrait(ConstFn)]
const fn const_fn<D>(deps: &D, a: u8) -> u8 {
    a
}
