//! props: C03
//! Lifetime relations written in a where clause.
use entrait::*;

#[entrait(LtWhere)]
fn lt_where<'a, 'b, D>(deps: &D, long: &'b str, short: &'a str) -> &'a str
where
    'b: 'a,
{
    long
}
#[entrait(LtWhereConcrete)]
fn lt_where_concrete<'a, 'b>(deps: &u8, long: &'b str, short: &'a str) -> &'a str
where
    'b: 'a,
{
    long
}
#[entrait(LtWhereNoDeps, no_deps)]
fn lt_where_no_deps<'a, 'b>(long: &'b str, short: &'a str) -> &'a str
where
    'b: 'a,
{
    long
}
