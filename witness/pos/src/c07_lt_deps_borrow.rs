//! props: C07 C03
//! An implementation-block function whose return value borrows from the dependency reference.
use entrait::*;

#[entrait(LtRepoImpl, delegate_by = DelegateLtRepo)]
pub trait LtRepo {
    fn pick<'a>(&'a self, x: &'a str, y: &'a str) -> &'a str;
}
pub struct LtTarget;
#[entrait]
impl LtRepoImpl for LtTarget {
    fn pick<'a, D>(deps: &'a D, x: &'a str, y: &'a str) -> &'a str {
        y
    }
}
