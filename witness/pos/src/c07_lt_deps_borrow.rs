//! props: C07 C03
//! An implementation-block function whose return value borrows from the dependency reference.
use entrait::*;

#[entrait(LtRepoImpl, delegate_by = DelegateLtRepo)]
pub trait LtRepo {
    fn pick<'a>(&'a self, x: &'a str, y: &'a str) -> &'a str;
}
pub struct LtTarget;
#[entrait]
impl LtRepoImpl for LtTarget {
    fn pick<'a, D>(deps: &'a D, x: &'a str, y: &'a str) -> &'a str {
        y
    }
}

#[entrait(LtDynRepoImpl, delegate_by = ref)]
pub trait LtDynRepo {
    fn pick<'a>(&'a self, x: &'a str, y: &'a str) -> &'a str;
    fn elided(&self, x: &str) -> u8;
}
pub struct LtDynTarget;
#[entrait(ref)]
impl LtDynRepoImpl for LtDynTarget {
    fn pick<'a, D>(deps: &'a D, x: &'a str, y: &'a str) -> &'a str {
        y
    }
    fn elided<D>(deps: &D, x: &str) -> u8 {
        0
    }
}
pub struct App(LtDynTarget);
impl AsRef<dyn LtDynRepoImpl<App>> for App {
    fn as_ref(&self) -> &dyn LtDynRepoImpl<App> {
        &self.0
    }
}
impl DelegateLtRepo<Self> for App {
    type Target = LtTarget;
}
fn client<'a>(app: &'a Impl<App>, s: &'a str) -> &'a str {
    let a = LtRepo::pick(app, s, s);
    let b = LtDynRepo::pick(app, s, s);
    if app.elided(s) == 0 {
        a
    } else {
        b
    }
}
