//! props: C15 C16 C06
//! (unimock itself rejects `_` parameters, so mock support is switched off here.)
//! Wildcard and conflicting parameter names in methods of an entraited trait.
use entrait::*;

#[entrait(unimock = false)]
pub trait WildParam {
    fn f(&self, _: i32, b: i32) -> i32;
    fn g(&self, _: i32, _: i32);
    /// a parameter named like the method
    fn h(&self, h: i32, other: i32) -> i32;
}

#[entrait(delegate_by = ref, unimock = false)]
pub trait WildParamRef {
    fn f(&self, _: i32, b: i32) -> i32;
}

#[entrait(WildInvImpl, delegate_by = DelegateWildInv, unimock = false)]
pub trait WildInv {
    fn f(&self, _: i32, b: i32) -> i32;
}
