//! props: C17 C06
//! The documented value `delegate_by = Self` (the default, written out).
use entrait::*;

#[entrait(delegate_by = Self)]
pub trait BySelf {
    fn one(&self, a: i32, b: i32) -> i32;
}
