//! props: C05 C01
//! Concrete dependency types of several shapes; the trait must be implemented for the concrete
//! type (calling the function) and for Impl<T> where T: Trait (forwarding), and nothing else.
use entrait::*;

pub struct App {
    pub name: String,
}
pub mod inner {
    pub struct Deep(pub u8);
}
pub struct Wrapper<T>(pub T);

#[entrait(CIdent)]
fn c_ident(deps: &App, a: i32, b: i32) -> i32 {
    a - b
}
#[entrait(CPath)]
fn c_path(deps: &inner::Deep, a: i32, b: i32) -> i32 {
    a - b
}
#[entrait(CGenericInst)]
fn c_generic_inst(deps: &Vec<u8>, a: i32, b: i32) -> usize {
    deps.len()
}
#[entrait(CWrapper)]
fn c_wrapper(deps: &Wrapper<u8>, a: i32, b: i32) -> u8 {
    deps.0
}
#[entrait(CTuple)]
fn c_tuple(deps: &(u8, u16), a: i32, b: i32) -> u8 {
    deps.0
}
#[entrait(CUnit)]
fn c_unit(deps: &(), a: i32, b: i32) -> i32 {
    a - b
}
#[entrait(CBorrowed)]
fn c_borrowed<'d>(deps: &'d App, other: &str) -> &'d str {
    &deps.name
}
#[entrait(CAsync)]
async fn c_async(deps: &App, a: i32, b: i32) -> i32 {
    a - b
}
#[entrait(CAsyncBorrowed)]
async fn c_async_borrowed<'a>(deps: &'a App, a: &'a str, b: &'a str) -> &'a str {
    b
}
#[entrait(CStaticRef)]
fn c_static_ref(deps: &'static App, a: i32, b: i32) -> &'static str {
    &deps.name
}

/// a downstream application opting in by hand
pub struct OtherApp;
impl CIdent for OtherApp {
    fn c_ident(&self, a: i32, b: i32) -> i32 {
        0
    }
}
fn client(a: &Impl<App>, b: &Impl<OtherApp>) -> i32 {
    a.c_ident(1, 2) + b.c_ident(1, 2)
}

/// concrete deps together with the function's own type / const / lifetime generics
#[entrait(CTypeGeneric)]
fn c_type_generic<T: Clone + Default>(deps: &App, key: &str, t: T) -> T {
    t
}
#[entrait(CConstGeneric)]
fn c_const_generic<'a, const N: usize>(deps: &'a App, keys: [&str; N]) -> [&'a str; N] {
    [&deps.name; N]
}
#[entrait(CWrapperGeneric)]
fn c_wrapper_generic<T: Clone>(deps: &Wrapper<u8>, t: T, t2: T) -> T {
    t2
}

/// `?Send` with a concrete dependency: the future may hold non-Send state
#[entrait(CNoSend, ?Send)]
async fn c_no_send(deps: &App, a: std::rc::Rc<u8>) -> std::rc::Rc<u8> {
    let held = std::rc::Rc::new(1u8);
    c_async(deps, 1, 2).await;
    drop(held);
    a
}
#[entrait(CNoSendBorrowed, ?Send)]
async fn c_no_send_borrowed<'a>(deps: &'a App, a: &'a std::rc::Rc<str>) -> &'a str {
    c_async(deps, 1, 2).await;
    a
}
pub struct LocalApp(pub std::rc::Rc<u8>);

// trait objects are concrete dependency types: the trait is implemented for `dyn Trait` itself
#[entrait(CDyn)]
fn c_dyn(deps: &dyn core::any::Any, a: i32) -> i32 {
    a
}
#[entrait(CDynAuto)]
fn c_dyn_auto(deps: &(dyn core::fmt::Debug + Send + Sync), a: i32) -> i32 {
    a
}
#[entrait(CDynAsync)]
async fn c_dyn_async(deps: &(dyn core::fmt::Debug + Send + Sync), a: i32) -> i32 {
    a
}

// explicit lifetimes on a concrete-deps reference, a relation between them declared in a WHERE clause,
// and a return borrowed from the deps
#[entrait(CLtWhere)]
fn c_lt_where<'a, 'b>(deps: &'a CfgLt, fallback: &'b str) -> &'a str
where
    'b: 'a,
{
    if deps.0.is_empty() {
        fallback
    } else {
        deps.0
    }
}
pub struct CfgLt(pub &'static str);
#[entrait(CLtWhereAsync)]
async fn c_lt_where_async<'a, 'b>(deps: &'a CfgLt, fallback: &'b str) -> &'a str
where
    'b: 'a,
{
    fallback
}

// `const fn` with a concrete dependency (in practice only concrete / no_deps functions can be const):
// neither the trait method nor the method of `impl Trait for C` may be `const`
pub struct PortConfig {
    pub base: u16,
}
#[entrait(pub GetPort)]
pub const fn get_port(config: &PortConfig, offset: u16) -> u16 {
    config.base + offset
}
pub const DEFAULT_PORT: u16 = get_port(&PortConfig { base: 8000 }, 80);
#[entrait(GetPortUnsafe)]
const unsafe fn get_port_unsafe(config: &PortConfig) -> u16 {
    config.base
}

// API attributes on a concrete-deps function stay on the function: the nested invocation mirrors trait-method
// attributes onto the methods of `impl Trait for Impl<T>`, where e.g. `#[deprecated]` is rejected
/// documented
#[entrait(CDeprecated)]
#[deprecated(note = "use something else")]
#[must_use]
fn c_deprecated(deps: &PortConfig) -> u16 {
    deps.base
}
/// documented
#[entrait(pub CDocumented)]
#[inline]
#[must_use = "result"]
pub fn c_documented(deps: &PortConfig) -> u16 {
    deps.base
}

// the concrete dependency is itself an instantiation of `Impl<..>` (fields of the application through
// Deref plus its other entraited functions): still a leaf trait with both impls
#[entrait(CImplWrapped)]
fn c_impl_wrapped(app: &Impl<App>, add: usize) -> usize {
    app.name.len() + add
}
#[entrait(CImplWrappedBorrow)]
fn c_impl_wrapped_borrow(app: &entrait::Impl<App>) -> &str {
    &app.name
}
pub struct HandOptIn(pub Impl<App>);
impl CImplWrapped for HandOptIn {
    fn c_impl_wrapped(&self, add: usize) -> usize {
        self.0.c_impl_wrapped(add)
    }
}
fn _c_impl_wrapped_forwarding(a: &Impl<HandOptIn>, b: &Impl<Impl<App>>) -> usize {
    a.c_impl_wrapped(1) + b.c_impl_wrapped(2) + b.c_impl_wrapped_borrow().len()
}
