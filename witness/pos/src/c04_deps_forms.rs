//! props: C04 C05 C01
//! Syntactic forms of the dependency parameter's type. Which form is a generic dependency and which a
//! concrete one is decided by the analyses from the type-checked signature, not from the spelling.
use entrait::*;

pub trait A {
    fn a(&self) -> u8;
}
pub trait B {}
pub struct App;
pub struct Gen<T>(pub T);
pub mod m {
    pub struct Inner;
}

// ---- generic forms
#[entrait(F01)]
fn f01<D: A>(deps: &D) -> u8 {
    deps.a()
}
#[entrait(F02)]
fn f02<D: A>(deps: D) -> u8 {
    deps.a()
}
#[entrait(F03)]
fn f03<'a, D: A>(deps: &'a D, x: &'a u8) -> &'a u8 {
    x
}
#[entrait(F04)]
fn f04<D: A>(deps: &(D)) -> u8 {
    deps.a()
}
#[entrait(F05)]
fn f05(deps: &impl A) -> u8 {
    deps.a()
}
#[entrait(F06)]
fn f06(deps: impl A) -> u8 {
    deps.a()
}
#[entrait(F07)]
fn f07(deps: &(impl A + B)) -> u8 {
    deps.a()
}
#[entrait(F08)]
fn f08<'a>(deps: &'a impl A, x: &'a u8) -> &'a u8 {
    x
}
#[entrait(F09)]
fn f09(deps: &(impl A)) -> u8 {
    deps.a()
}
#[entrait(F10)]
fn f10<D>(deps: &D) -> u8
where
    D: A + B,
{
    deps.a()
}
#[entrait(F11)]
fn f11<D: ?Sized + A>(deps: &D) -> u8 {
    deps.a()
}
#[entrait(F12)]
fn f12(deps: &(impl A + ?Sized)) -> u8 {
    deps.a()
}

#[entrait(F13)]
fn f13<D>(deps: &D) -> u8
where
    D: A + ?Sized,
{
    deps.a()
}
#[entrait(F14)]
fn f14<D: A>(deps: &D) -> u8
where
    D: ?Sized + B,
{
    deps.a()
}

// ---- concrete forms
#[entrait(G01)]
fn g01(deps: &App) -> u8 {
    1
}
// (a concrete dependency taken BY VALUE is outside C05, which speaks of `&C`: the forwarding impl for
// Impl<T> would have to move the application out of `&Impl<T>`)
#[entrait(G03)]
fn g03(deps: &m::Inner) -> u8 {
    1
}
#[entrait(G04)]
fn g04(deps: &Gen<u8>) -> u8 {
    deps.0
}
#[entrait(G05)]
fn g05(deps: &(u8, u8)) -> u8 {
    deps.0
}
#[entrait(G06)]
fn g06(deps: &()) -> u8 {
    1
}
#[entrait(G07)]
fn g07(deps: &[u8]) -> u8 {
    deps[0]
}
#[entrait(G08)]
fn g08(deps: &str) -> usize {
    deps.len()
}
#[entrait(G09)]
fn g09(deps: &'static App) -> u8 {
    1
}
#[entrait(G10)]
fn g10(deps: &[u8; 4]) -> u8 {
    deps[0]
}
#[entrait(G11)]
fn g11(deps: &(App)) -> u8 {
    1
}
#[entrait(G12)]
fn g12<'a>(deps: &'a App, x: &'a u8) -> &'a u8 {
    x
}
#[entrait(G13)]
fn g13(deps: &u8) -> u8 {
    *deps
}
#[entrait(G14)]
fn g14(deps: &fn() -> u8) -> u8 {
    deps()
}
#[entrait(G15)]
fn g15(deps: &crate::c04_deps_forms::m::Inner) -> u8 {
    1
}
