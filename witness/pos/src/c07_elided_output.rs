//! props: C07 C03 C12
//! Static delegation target + methods whose OUTPUT borrows from `&self` by lifetime elision while
//! another parameter is a reference too: on the generated `TraitImpl<T>` the receiver becomes the
//! ordinary parameter `__impl`, so the elided output lifetime has to be named. Also the typed
//! receiver form `self: &Self`.
use entrait::*;

#[entrait(KvImpl, delegate_by = DelegateKv, unimock = false)]
pub trait Kv {
    fn get(&self, key: &str) -> &str;
    fn get_opt(&self, key: &str, other: &u8) -> Option<&str>;
    fn iter(&self, prefix: &str) -> Box<dyn Iterator<Item = &str> + '_>;
    fn anon(&self, key: &str) -> core::slice::Iter<'_, u8>;
    fn typed(self: &Self, key: &str) -> &str;
    fn typed_named<'s>(self: &'s Self, key: &str) -> &'s str;
    fn fn_ptr(&self, key: &str) -> fn(&str) -> &str;
    fn no_borrow(&self, key: &str) -> usize;
    fn only_self(&self) -> &str;
    async fn aget(&self, key: &str) -> &str;
    async fn afind(&self, prefix: &str, other: &u8) -> Option<&str>;
    fn tags(&self, item: &str) -> &[&str];
    fn nested(&self, item: &str) -> Option<&(&str, &[u8])>;
    fn ref_ref(&self, item: &str) -> &&str;
}

pub struct Store;
#[entrait]
impl KvImpl for Store {
    fn get<'a, D>(deps: &'a D, key: &str) -> &'a str {
        "get"
    }
    fn get_opt<'a, D>(deps: &'a D, key: &str, other: &u8) -> Option<&'a str> {
        None
    }
    fn iter<'a, D>(deps: &'a D, prefix: &str) -> Box<dyn Iterator<Item = &'a str> + 'a> {
        Box::new(core::iter::empty())
    }
    fn anon<'a, D>(deps: &'a D, key: &str) -> core::slice::Iter<'a, u8> {
        [].iter()
    }
    fn typed<'a, D>(deps: &'a D, key: &str) -> &'a str {
        "typed"
    }
    fn typed_named<'s, D>(deps: &'s D, key: &str) -> &'s str {
        "typed_named"
    }
    fn fn_ptr<D>(deps: &D, key: &str) -> fn(&str) -> &str {
        |s| s
    }
    fn no_borrow<D>(deps: &D, key: &str) -> usize {
        key.len()
    }
    fn only_self<D>(deps: &D) -> &str {
        "only_self"
    }
    async fn aget<'a, D>(deps: &'a D, key: &str) -> &'a str {
        "aget"
    }
    async fn afind<'a, D>(deps: &'a D, prefix: &str, other: &u8) -> Option<&'a str> {
        None
    }
    fn tags<'a, D>(deps: &'a D, item: &str) -> &'a [&'a str] {
        &[]
    }
    fn nested<'a, D>(deps: &'a D, item: &str) -> Option<&'a (&'a str, &'a [u8])> {
        None
    }
    fn ref_ref<'a, D>(deps: &'a D, item: &str) -> &'a &'a str {
        &"x"
    }
}

pub struct App;
impl DelegateKv<App> for App {
    type Target = Store;
}
fn client<'x>(app: &'x Impl<App>, key: &str) -> &'x str {
    let _ = app.get_opt(key, &1);
    let _ = app.iter(key);
    let _ = app.typed(key);
    app.get(key)
}
