//! props: C01 C03 C14
//! Arity 0..6, adjacent parameters of one type (only position can tell them apart).
use entrait::*;

#[entrait(A0)]
fn a0<D>(deps: &D) -> u8 {
    0
}
#[entrait(A1)]
fn a1<D>(deps: &D, a: i32) -> i32 {
    a
}
#[entrait(A2)]
fn a2<D>(deps: &D, a: i32, b: i32) -> i32 {
    a - b
}
#[entrait(A3)]
fn a3<D>(deps: &D, a: i32, b: i32, c: i32) -> i32 {
    a - b - c
}
#[entrait(A4)]
fn a4<D>(deps: &D, a: u8, b: u8, c: u8, d: u8) -> [u8; 4] {
    [a, b, c, d]
}
#[entrait(pub A6)]
pub fn a6<D>(deps: &D, a: u8, b: u8, c: u8, d: u8, e: u8, f: u8) -> [u8; 6] {
    [a, b, c, d, e, f]
}
/// no explicit return type
#[entrait(AUnit)]
fn a_unit<D>(deps: &D, a: i32, b: i32) {}

fn client(app: &Impl<()>) -> i32 {
    app.a0();
    app.a2(1, 2) + app.a3(1, 2, 3) + app.a1(0)
}
