//! props: C06
//! twin: skip
//! Entraited TRAITS stamped out by `macro_rules!`: the trait and method names are macro arguments, the
//! `&self` receiver is written in the macro body. `self` is hygienic under macro_rules, so the `self`
//! tokens of the generated delegating bodies must carry the receiver's hygiene context, not the method
//! name's. (The attribute sits inside a macro definition, so the twin diff skips this file.)
use entrait::*;

macro_rules! getter {
    ($t:ident :: $m:ident -> $ty:ty) => {
        #[entrait]
        pub trait $t {
            fn $m(&self) -> $ty;
        }
    };
}
getter!(GetPort::port -> u16);

macro_rules! getter_ref {
    ($t:ident :: $m:ident ($a:ident : $aty:ty) -> $ty:ty) => {
        #[entrait(delegate_by = ref)]
        pub trait $t {
            fn $m(&self, $a: $aty, fixed: u8) -> $ty;
        }
    };
}
getter_ref!(GetHost::host(index: usize) -> u8);

macro_rules! getter_borrow {
    ($t:ident :: $m:ident -> $ty:ty) => {
        #[entrait(delegate_by = Borrow)]
        pub trait $t {
            fn $m(&self) -> $ty;
            fn later(&self, other: $ty) -> $ty;
        }
    };
}
getter_borrow!(GetName::name -> u8);

macro_rules! getter_async {
    ($t:ident :: $m:ident -> $ty:ty) => {
        #[entrait]
        pub trait $t {
            async fn $m(&self) -> $ty;
        }
    };
}
getter_async!(GetLater::later -> u8);
