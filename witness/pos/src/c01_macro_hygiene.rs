//! props: C01 C16
//! twin: skip
//! Entraited functions produced by `macro_rules!`: trait name, fn name, the parameter list (including the
//! dependency) and the body come from the macro's caller, further parameters from the macro itself — two
//! parameters may carry the *same name* in different hygiene contexts, and only resolution (not spelling)
//! tells them apart. (The attribute sits inside a macro definition, so the twin diff skips this file.)
use entrait::*;

macro_rules! retrying {
    ($trait_name:ident, fn $fn_name:ident($($params:tt)*) $body:block) => {
        #[entrait($trait_name)]
        fn $fn_name($($params)*, attempts: u32) -> (u32, u32) $body
    };
}
retrying!(Backoff, fn backoff(_deps: &impl core::any::Any, attempts: u32) { (attempts * 100, attempts) });

macro_rules! with_extra_last {
    ($trait_name:ident, fn $fn_name:ident($($params:tt)*) -> $r:ty $body:block) => {
        #[entrait($trait_name)]
        fn $fn_name($($params)*, extra: u8, other: u8) -> $r $body
    };
}
with_extra_last!(ExtraLast, fn extra_last(_deps: &impl core::any::Any, extra: u8, other: u8) -> u8 { extra - other });

macro_rules! in_module {
    ($trait_name:ident, $m:ident, $($item:item)*) => {
        #[entrait(pub $trait_name)]
        pub mod $m {
            $($item)*
        }
    };
}
in_module!(
    InModule,
    generated_mod,
    pub fn one<D>(deps: &D, value: u8, other: u8) -> u8 {
        value - other
    }
    pub fn two<D>(deps: &D, other: u8, value: u8) -> u8 {
        value - other
    }
);
