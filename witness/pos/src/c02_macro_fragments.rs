//! props: C02
//! twin: skip
//! Function bodies produced by `macro_rules!` with `$e:expr` fragments: a fragment is an invisible group and must
//! stay one when the body is passed through (`$base * 2` with `$base = 1 + 1` is 4, not 3). The functions are
//! `const fn`, so the compiler itself evaluates them in the assertions below — nothing is run.
use entrait::*;

macro_rules! doubled {
    ($t:ident, $f:ident, $base:expr) => {
        #[entrait($t, no_deps)]
        pub const fn $f() -> u32 {
            $base * 2
        }
    };
}
doubled!(Doubled, doubled, 1 + 1);
const _: () = assert!(doubled() == 4);

macro_rules! doubled_mod {
    ($t:ident, $m:ident, $base:expr) => {
        #[entrait(pub $t, no_deps)]
        pub mod $m {
            pub const fn doubled_in_mod() -> u32 {
                $base * 2
            }
            const fn private_one() -> u32 {
                $base * 3
            }
            pub const CHECK: u32 = private_one();
        }
    };
}
doubled_mod!(DoubledMod, doubled_mod, 1 + 1);
const _: () = assert!(doubled_mod::doubled_in_mod() == 4 && doubled_mod::CHECK == 6);

macro_rules! doubled_concrete {
    ($t:ident, $f:ident, $base:expr, $ty:ty) => {
        #[entrait($t)]
        pub const fn $f(deps: &$ty, extra: u32) -> u32 {
            ($base * 2) + extra - $base * 0
        }
    };
}
doubled_concrete!(DoubledConcrete, doubled_concrete, 1 + 1, u8);
const _: () = assert!(doubled_concrete(&0, 1) == 5);
