//! props: C05
//! twin: skip
//! Concrete-deps accessors stamped out by `macro_rules!` with the application type passed as a `$app:ty`
//! fragment: the type reaches the proc macro inside a None-delimited group (`syn::Type::Group`).
use entrait::*;

pub struct Config {
    pub retries: u32,
}
pub struct Pool<T>(pub T);

macro_rules! accessor_a {
    ($t:ident, $f:ident, $app:ty, $ret:ty, |$a:ident| $body:expr) => {
        #[entrait(pub $t)]
        pub fn $f($a: &$app) -> $ret {
            $body
        }
    };
}
accessor_a!(GetRetries, get_retries, Config, u32, |app| app.retries);
macro_rules! accessor_b {
    ($t:ident, $f:ident, $app:ty, $ret:ty, |$a:ident| $body:expr) => {
        #[entrait(pub $t)]
        pub fn $f($a: &$app) -> $ret {
            $body
        }
    };
}
accessor_b!(GetPooled, get_pooled, Pool<u8>, u8, |app| app.0);
macro_rules! accessor_c {
    ($t:ident, $f:ident, $app:ty, $ret:ty, |$a:ident| $body:expr) => {
        #[entrait(pub $t)]
        pub fn $f($a: &$app) -> $ret {
            $body
        }
    };
}
accessor_c!(GetPair, get_pair, (u32, u32), u32, |app| app.0 + app.1);
macro_rules! accessor_d {
    ($t:ident, $f:ident, $app:ty, $ret:ty, |$a:ident| $body:expr) => {
        #[entrait(pub $t)]
        pub async fn $f($a: &$app) -> $ret {
            $body
        }
    };
}
accessor_d!(GetSlice, get_slice, [u8], usize, |app| app.len());

pub struct OtherApp;
impl GetRetries for OtherApp {
    fn get_retries(&self) -> u32 {
        7
    }
}
fn client(a: &Impl<Config>, b: &Impl<OtherApp>) -> u32 {
    a.get_retries() + b.get_retries()
}
