//! props: C02 C18
//! The annotated function must be re-emitted unchanged: attributes, visibility, qualifiers, signature, body.
use entrait::*;

#[entrait(Documented)]
/// A doc comment below the entrait attribute.
/// Second line.
#[inline]
#[must_use = "M1"]
#[allow(clippy::needless_return, unused_mut)]
pub fn documented<D>(deps: &D, a: u8) -> u8 {
    let mut x = a;
    return x;
}

#[entrait(pub(crate) CrateVis)]
pub(crate) fn crate_vis<D>(deps: &D) {}

#[entrait(InPathVis)]
pub(in crate::c02_fn_items) fn in_path_vis<D>(deps: &D) {}

#[entrait(ExternC)]
pub extern "C" fn extern_c<D>(deps: &D, a: u8) -> u8 {
    a
}

#[entrait(WhereClause)]
fn where_clause<'a, D, T>(deps: &'a D, t: &'a T) -> &'a T
where
    T: core::fmt::Debug + 'a,
    D: Sync,
{
    t
}

#[entrait(OddBody)]
fn odd_body<D>(deps: &D, v: &[u8]) -> usize {
    // tokens of many kinds: macros, closures, nested braces, turbofish, labels, raw strings, lifetimes
    let s = r#"raw "string" with # inside"#;
    let c = |x: u8| -> u8 { x.wrapping_add(1) };
    let n = 'outer: loop {
        for (i, b) in v.iter().enumerate() {
            if c(*b) == b'\n' {
                break 'outer i;
            }
        }
        break v.len();
    };
    let t = Vec::<u8>::with_capacity(n << 1 >> 1);
    match (s.len(), t.capacity()) {
        (0, _) | (_, 0) => 0,
        (a, b) if a > b => a - b,
        (a, b) => b - a,
    }
}

#[entrait(CfgAttr)]
#[cfg_attr(all(), inline(always))]
#[cfg(all())]
fn cfg_attr<D>(deps: &D) -> u8 {
    #![allow(unused_braces)]
    { 1 }
}

#[entrait(AsyncUnsafeLike)]
pub(crate) async fn async_item<D>(deps: &D, a: &str) -> usize {
    a.len()
}

pub struct NotEntraited;
impl NotEntraited {
    pub fn stays<D>(deps: &D) {}
}
pub const BETWEEN: u8 = 1;
