//! props: C12 C06 C07
//! async_trait below entrait: async fn kept as written, attribute re-applied to trait(s) and impl(s).
use entrait::*;

#[entrait]
#[async_trait::async_trait]
pub trait AtPlain {
    async fn a(&self, x: u8, y: u8) -> Vec<u8>;
    async fn b(&self);
}

#[entrait(delegate_by = ref)]
#[async_trait::async_trait]
pub trait AtRef {
    async fn a(&self, x: u8, y: u8) -> Vec<u8>;
}

#[entrait(AtInvImpl, delegate_by = ref)]
#[async_trait::async_trait]
pub trait AtInv {
    async fn a(&self, x: u8, y: u8) -> Vec<u8>;
    async fn b(&self, x: u8, y: u8) -> Vec<u8>;
}
pub struct AtTarget;
#[entrait(ref)]
#[async_trait::async_trait]
impl AtInvImpl for AtTarget {
    async fn a<D>(deps: &D, x: u8, y: u8) -> Vec<u8> {
        vec![x, y]
    }
    async fn b<D>(deps: &D, x: u8, y: u8) -> Vec<u8> {
        vec![y, x]
    }
}

#[entrait(AtStaticImpl, delegate_by = DelegateAtStatic)]
#[async_trait::async_trait]
pub trait AtStatic {
    async fn a(&self, x: u8, y: u8) -> Vec<u8>;
}
pub struct AtStaticTarget;
#[entrait]
#[async_trait::async_trait]
impl AtStaticImpl for AtStaticTarget {
    async fn a<D>(deps: &D, x: u8, y: u8) -> Vec<u8> {
        vec![x, y]
    }
}

/// async_trait written with arguments
#[entrait]
#[async_trait::async_trait(?Send)]
pub trait AtArgsPlain {
    async fn a(&self, x: u8, y: u8) -> Vec<u8>;
}
#[entrait(delegate_by = ref)]
#[async_trait::async_trait(?Send)]
pub trait AtArgsRef {
    async fn a(&self, x: u8, y: u8) -> Vec<u8>;
    fn sync(&self, x: u8) -> u8;
}

// `async_trait` reached through a re-export (as web frameworks offer it): still the async_trait attribute
pub mod framework {
    pub use async_trait::async_trait;
    pub mod nested {
        pub use async_trait::async_trait as at_renamed_path;
    }
}
#[entrait]
#[framework::async_trait]
pub trait ReexportedPlain {
    async fn one(&self, a: u8) -> u8;
}
#[entrait(delegate_by = ref)]
#[framework::async_trait]
pub trait ReexportedRef {
    async fn one(&self, a: u8) -> u8;
}
#[entrait(delegate_by = Borrow)]
#[self::framework::async_trait]
pub trait ReexportedBorrow {
    async fn one(&self, a: u8) -> u8;
}
#[entrait(ReexportedTargetImpl, delegate_by = ref)]
#[crate::c12_async_trait::framework::async_trait]
pub trait ReexportedTarget {
    async fn one(&self, a: u8) -> u8;
}
pub struct ReexportedTargetStruct;
#[entrait(ref)]
#[framework::async_trait]
impl ReexportedTargetImpl for ReexportedTargetStruct {
    async fn one<D>(deps: &D, a: u8) -> u8 {
        a
    }
}
