//! props: C12 C06 C07
//! async_trait below entrait: async fn kept as written, attribute re-applied to trait(s) and impl(s).
use entrait::*;

#[entrait]
#[async_trait::async_trait]
pub trait AtPlain {
    async fn a(&self, x: u8, y: u8) -> Vec<u8>;
    async fn b(&self);
}

#[entrait(delegate_by = ref)]
#[async_trait::async_trait]
pub trait AtRef {
    async fn a(&self, x: u8, y: u8) -> Vec<u8>;
}

#[entrait(AtInvImpl, delegate_by = ref)]
#[async_trait::async_trait]
pub trait AtInv {
    async fn a(&self, x: u8, y: u8) -> Vec<u8>;
    async fn b(&self, x: u8, y: u8) -> Vec<u8>;
}
pub struct AtTarget;
#[entrait(ref)]
#[async_trait::async_trait]
impl AtInvImpl for AtTarget {
    async fn a<D>(deps: &D, x: u8, y: u8) -> Vec<u8> {
        vec![x, y]
    }
    async fn b<D>(deps: &D, x: u8, y: u8) -> Vec<u8> {
        vec![y, x]
    }
}

#[entrait(AtStaticImpl, delegate_by = DelegateAtStatic)]
#[async_trait::async_trait]
pub trait AtStatic {
    async fn a(&self, x: u8, y: u8) -> Vec<u8>;
}
pub struct AtStaticTarget;
#[entrait]
#[async_trait::async_trait]
impl AtStaticImpl for AtStaticTarget {
    async fn a<D>(deps: &D, x: u8, y: u8) -> Vec<u8> {
        vec![x, y]
    }
}

/// async_trait written with arguments
#[entrait]
#[async_trait::async_trait(?Send)]
pub trait AtArgsPlain {
    async fn a(&self, x: u8, y: u8) -> Vec<u8>;
}
#[entrait(delegate_by = ref)]
#[async_trait::async_trait(?Send)]
pub trait AtArgsRef {
    async fn a(&self, x: u8, y: u8) -> Vec<u8>;
    fn sync(&self, x: u8) -> u8;
}
