//! props: C01 C12 C14
use entrait::*;

#[entrait(As0)]
async fn as0<D>(deps: &D) {}
#[entrait(As2)]
async fn as2<D>(deps: &D, a: i32, b: i32) -> i32 {
    a - b
}
#[entrait(AsStr)]
async fn as_str<'a, D>(deps: &'a D, s: &'a str, t: &'a str) -> &'a str {
    t
}
#[entrait(AsOwned)]
async fn as_owned<D>(deps: &D, s: String, t: String) -> (String, String) {
    (t, s)
}
#[entrait(AsGen)]
async fn as_gen<D, T: Send>(deps: &D, t: T, u: T) -> T {
    u
}
#[entrait(AsPat)]
async fn as_pat<D>(deps: &D, (a, b): (i32, i32), _: i32) -> i32 {
    a - b
}
#[entrait(AsNoSend, ?Send)]
async fn as_no_send<D>(deps: &D, a: std::rc::Rc<i32>, b: std::rc::Rc<i32>) -> std::rc::Rc<i32> {
    as0(deps).await;
    b
}
