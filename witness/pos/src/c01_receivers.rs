//! props: C01 C04 C03
//! by-value deps, impl-Trait deps, no_deps.
use entrait::*;

#[entrait(ByVal)]
fn by_val<D: Clone>(deps: D, a: i32, b: i32) -> i32 {
    a - b
}
#[entrait(ByValImpl)]
fn by_val_impl(deps: impl Clone + core::fmt::Debug, a: i32, b: i32) -> i32 {
    a - b
}
#[entrait(ByRefImpl)]
fn by_ref_impl(deps: &impl Clone, a: i32, b: i32) -> i32 {
    a - b
}
#[entrait(ByRefImplAny)]
fn by_ref_impl_any(deps: &impl core::any::Any, a: i32, b: i32) -> i32 {
    a - b
}
#[entrait(Nd0, no_deps)]
fn nd0() -> u8 {
    0
}
#[entrait(Nd2, no_deps)]
fn nd2(a: i32, b: i32) -> i32 {
    a - b
}
#[entrait(Nd3, no_deps)]
fn nd3(a: u8, (b, c): (u8, u8), _: u8) -> u8 {
    a - b - c
}
#[entrait(NdAsync, no_deps)]
async fn nd_async(a: i32, b: i32) -> i32 {
    a - b
}
#[entrait(NdGen, no_deps)]
fn nd_gen<T>(a: T, b: T) -> T {
    b
}
