//! props: C09
//! Default method bodies must be kept.
use entrait::*;

#[entrait]
pub trait WithDefault {
    fn required(&self, a: u8) -> u8;
    fn provided(&self, a: u8) -> u8 {
        self.required(a) + 1
    }
}
// (no implementor here: with the recorded defect an implementor would not compile, and the whole
// corpus would need a second compile round on every run; the twin diff decides this witness)
