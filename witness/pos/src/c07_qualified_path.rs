//! props: C07
//! Impl blocks that name the delegation-target trait by a QUALIFIED path (module-relative, `self::`,
//! `crate::`, `super::`) instead of an imported identifier.
use entrait::*;

pub mod api {
    use entrait::*;
    #[entrait(pub RepositoryImpl, delegate_by = DelegateRepository)]
    pub trait Repository {
        fn fetch(&self, id: u32) -> u32;
    }
    #[entrait(pub CacheImpl, delegate_by = ref)]
    pub trait Cache {
        fn lookup(&self, id: u32) -> u32;
    }
    pub trait Offset {
        fn offset(&self) -> u32;
    }
}

pub struct Postgres;
#[entrait]
impl api::RepositoryImpl for Postgres {
    fn fetch(deps: &impl api::Offset, id: u32) -> u32 {
        id + deps.offset()
    }
}
pub struct Sqlite;
#[entrait]
impl self::api::RepositoryImpl for Sqlite {
    fn fetch<D>(deps: &D, id: u32) -> u32 {
        id
    }
}
pub struct Mem;
#[entrait(ref)]
impl crate::c07_qualified_path::api::CacheImpl for Mem {
    fn lookup<D>(deps: &D, id: u32) -> u32 {
        id
    }
}
pub mod inner {
    use entrait::*;
    pub struct Nested;
    #[entrait]
    impl super::api::RepositoryImpl for Nested {
        fn fetch<D>(deps: &D, id: u32) -> u32 {
            id + 1
        }
    }
}

pub struct App;
impl api::DelegateRepository<App> for App {
    type Target = Postgres;
}
impl api::Offset for Impl<App> {
    fn offset(&self) -> u32 {
        1
    }
}
fn client(app: &Impl<App>) -> u32 {
    use api::Repository;
    app.fetch(1)
}
