//! props: C04 C10
//! Self type of the generated impl under every mock setting that needs no unimock feature.
use entrait::*;

/// a dependency that the mock type implements as well (when unimock support is on)
#[entrait(pub DepA, mock_api = DepAMock)]
fn dep_a<D>(deps: &D) {}

#[entrait(MsNone)]
fn ms_none<D: DepA>(deps: &D) {}
#[entrait(MsMockall, mockall)]
fn ms_mockall<D: DepA>(deps: &D) {}
#[entrait(MsMockallTrue, mockall = true)]
fn ms_mockall_true<D: DepA>(deps: &D) {}
#[entrait(MsMockallFalse, mockall = false)]
fn ms_mockall_false<D: DepA>(deps: &D) {}
#[entrait(MsApiOnly, mock_api = MsApiOnlyMock)]
fn ms_api_only<D: DepA>(deps: &D) {}
#[entrait(MsUnimockFalseApi, unimock = false, mock_api = MsUnimockFalseApiMock)]
fn ms_unimock_false_api<D: DepA>(deps: &D) {}
#[entrait(MsUnimockFalse, unimock = false)]
fn ms_unimock_false<D: DepA>(deps: &D) {}
#[entrait_export(MsExport)]
fn ms_export<D: DepA>(deps: &D) {}
#[entrait_export(MsExportMockall, mockall)]
fn ms_export_mockall<D: DepA>(deps: &D) {}
#[entrait(pub MsModFalse, mockall = false, unimock = false)]
pub mod ms_mod_false {
    pub fn mf<D: super::DepA>(deps: &D) {}
}
