//! props: C04 C10
//! Self type of the generated impl under every mock setting that needs no unimock feature.
use entrait::*;

/// a dependency that the mock type implements as well (when unimock support is on)
#[entrait(pub DepA, mock_api = DepAMock)]
fn dep_a<D>(deps: &D) {}

#[entrait(MsNone)]
fn ms_none<D: DepA>(deps: &D) {}
#[entrait(MsMockall, mockall)]
fn ms_mockall<D: DepA>(deps: &D) {}
#[entrait(MsMockallTrue, mockall = true)]
fn ms_mockall_true<D: DepA>(deps: &D) {}
#[entrait(MsMockallFalse, mockall = false)]
fn ms_mockall_false<D: DepA>(deps: &D) {}
#[entrait(MsApiOnly, mock_api = MsApiOnlyMock)]
fn ms_api_only<D: DepA>(deps: &D) {}
#[entrait(MsUnimockFalseApi, unimock = false, mock_api = MsUnimockFalseApiMock)]
fn ms_unimock_false_api<D: DepA>(deps: &D) {}
#[entrait(MsUnimockFalse, unimock = false)]
fn ms_unimock_false<D: DepA>(deps: &D) {}
#[entrait_export(MsExport)]
fn ms_export<D: DepA>(deps: &D) {}
#[entrait_export(MsExportMockall, mockall)]
fn ms_export_mockall<D: DepA>(deps: &D) {}
#[entrait(pub MsModFalse, mockall = false, unimock = false)]
pub mod ms_mod_false {
    pub fn mf<D: super::DepA>(deps: &D) {}
}
// the exporting spellings with a mock API: mockable exactly when the unimock feature supplies the default
// (their dependency is exported as well, so that the exported mock can un-mock into it outside of tests)
#[entrait_export(pub DepX, mock_api = DepXMock)]
fn dep_x<D>(deps: &D) {}
#[entrait_export(MsExportApi, mock_api = MsExportApiMock)]
fn ms_export_api<D: DepX>(deps: &D) {}
#[entrait(MsExportOptApi, export, mock_api = MsExportOptApiMock)]
fn ms_export_opt_api<D: DepX>(deps: &D) {}
#[entrait_export(pub MsExportModApi, mock_api = MsExportModApiMock)]
pub mod ms_export_mod_api {
    pub fn ema<D: super::DepX>(deps: &D) {}
    pub fn emb<D: super::DepX>(deps: &D, a: u8) -> u8 {
        a
    }
}
