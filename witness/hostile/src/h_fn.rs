//! props: C19
crate::decoys!();

pub trait Dep {
    fn dep(&self) -> u8;
}

#[::entrait::entrait(Foo)]
fn foo<D>(deps: &D, a: u8, b: u8) -> u8 {
    a - b
}
#[::entrait::entrait(pub Bounded)]
pub fn bounded<D: Dep>(deps: &D) -> u8 {
    deps.dep()
}
#[::entrait::entrait(ImplDeps)]
fn impl_deps(deps: &impl Dep) -> u8 {
    deps.dep()
}
#[::entrait::entrait(FooAsync)]
async fn foo_async<D>(deps: &D, a: u8) -> u8 {
    a
}
#[::entrait::entrait(FooAsyncNoSend, ?Send)]
async fn foo_async_no_send<D>(deps: &D, a: u8) -> u8 {
    a
}
#[::entrait::entrait(ByValue)]
fn by_value<D: ::core::clone::Clone>(deps: D, a: u8) -> u8 {
    a
}
#[::entrait::entrait(Concrete)]
fn concrete(deps: &u8, a: u8) -> u8 {
    a
}
#[::entrait::entrait(ConcreteAsync)]
async fn concrete_async(deps: &u8, a: u8) -> u8 {
    a
}
#[::entrait::entrait(NoDeps, no_deps)]
fn no_deps(a: u8) -> u8 {
    a
}
#[::entrait::entrait_export(Exported)]
fn exported<D>(deps: &D) {}
