//! props: C19
//! The delegation (selector) trait of a static delegation target is a trait the macro GENERATES under a
//! name the user chooses. Names that coincide with things the macro refers to (`AsRef`, `Impl`, `Send`,
//! `Future`, ..) are ordinary names there; only the documented keywords `Self`, `ref` and `Borrow` are special.
pub struct App;
pub mod sel_as_ref {
    #[::entrait::entrait(GreetImpl, delegate_by = AsRef)]
    pub trait Greet {
        fn greet(&self, a: u8) -> u8;
    }
    pub struct Polite;
    #[::entrait::entrait]
    impl GreetImpl for Polite {
        fn greet<D>(deps: &D, a: u8) -> u8 {
            a
        }
    }
    impl AsRef<super::App> for super::App {
        type Target = Polite;
    }
}
pub mod sel_impl {
    #[::entrait::entrait(GreetImpl, delegate_by = Impl)]
    pub trait Greet {
        fn greet(&self, a: u8) -> u8;
    }
    pub struct Polite;
    #[::entrait::entrait]
    impl GreetImpl for Polite {
        fn greet<D>(deps: &D, a: u8) -> u8 {
            a
        }
    }
    impl Impl<super::App> for super::App {
        type Target = Polite;
    }
}
pub mod sel_send {
    // (unimock's own expansion names `Send` by its prelude name: its hygiene, not entrait's)
    #[::entrait::entrait(GreetImpl, delegate_by = Send, unimock = false)]
    pub trait Greet {
        fn greet(&self, a: u8) -> u8;
    }
    pub struct Polite;
    #[::entrait::entrait]
    impl GreetImpl for Polite {
        fn greet<D>(deps: &D, a: u8) -> u8 {
            a
        }
    }
    impl Send<super::App> for super::App {
        type Target = Polite;
    }
}
pub mod sel_deref {
    #[::entrait::entrait(GreetImpl, delegate_by = Deref)]
    pub trait Greet {
        fn greet(&self, a: u8) -> u8;
    }
    pub struct Polite;
    #[::entrait::entrait]
    impl GreetImpl for Polite {
        fn greet<D>(deps: &D, a: u8) -> u8 {
            a
        }
    }
    impl Deref<super::App> for super::App {
        type Target = Polite;
    }
}
