//! props: C19
crate::decoys!();

pub trait Dep {}

#[::entrait::entrait(RepoImpl, delegate_by = DelegateRepo)]
pub trait Repo {
    fn one(&self, a: u8) -> u8;
    async fn two(&self, a: u8) -> u8;
}
pub struct Target;
#[::entrait::entrait]
impl RepoImpl for Target {
    fn one<D: Dep>(deps: &D, a: u8) -> u8 {
        a
    }
    async fn two<D>(deps: &D, a: u8) -> u8 {
        a
    }
}
#[::entrait::entrait(DynRepoImpl, delegate_by = ref)]
pub trait DynRepo {
    fn one(&self, a: u8) -> u8;
}
pub struct DynTarget;
#[::entrait::entrait(ref)]
impl DynRepoImpl for DynTarget {
    fn one<D: Dep>(deps: &D, a: u8) -> u8 {
        a
    }
}
