//! props: C19
//! Generated traits named like the marker traits the macro itself refers to.
//! (unimock's expansion names `Send`/`Sync` bare, so the traits of those names opt out of unimock.)
#[::entrait::entrait(Sync, unimock = false)]
fn sync<D>(deps: &D) {}

pub mod send {
    #[::entrait::entrait(Send, unimock = false)]
    fn send<D: ::core::clone::Clone>(deps: D) {}
}
pub mod future {
    #[::entrait::entrait(Future)]
    async fn future<D>(deps: &D) -> u8 {
        0
    }
}
pub mod as_ref {
    #[::entrait::entrait(delegate_by = ref)]
    pub trait AsRef {
        fn one(&self) -> u8;
    }
}
pub mod sync_trait {
    #[::entrait::entrait(SyncImpl, delegate_by = ref, unimock = false)]
    pub trait Sync {
        fn one(&self) -> u8;
    }
}
pub mod impl_named {
    #[::entrait::entrait(Impl)]
    fn an_impl<D>(deps: &D) {}
}

// generated traits NAMED like the marker traits, used as DEPENDENCY bounds of other entraited functions:
// they are the user's traits, not `::core::marker::*`, and their bounds are requirements like any other
pub mod as_deps {
    pub trait Storage {}
    #[::entrait::entrait(pub Sync)]
    fn sync(deps: &impl Storage) {}
    #[::entrait::entrait(pub Send)]
    fn send(deps: &impl Storage) {}
    #[::entrait::entrait(pub Backup)]
    fn backup(deps: &impl Sync) {
        deps.sync()
    }
    #[::entrait::entrait(pub BackupBoth)]
    fn backup_both<D>(deps: &D)
    where
        D: Sync + Send,
    {
        deps.sync();
        deps.send()
    }
    #[::entrait::entrait(pub BackupMod)]
    pub mod backup_mod {
        pub fn one(deps: &impl super::Sync) {
            deps.sync()
        }
        pub fn two(deps: &(impl super::Send + super::Sync)) {
            deps.send()
        }
    }
}
