//! props: C19
//! Generated traits named like the marker traits the macro itself refers to.
//! (unimock's expansion names `Send`/`Sync` bare, so the traits of those names opt out of unimock.)
#[::entrait::entrait(Sync, unimock = false)]
fn sync<D>(deps: &D) {}

pub mod send {
    #[::entrait::entrait(Send, unimock = false)]
    fn send<D: ::core::clone::Clone>(deps: D) {}
}
pub mod future {
    #[::entrait::entrait(Future)]
    async fn future<D>(deps: &D) -> u8 {
        0
    }
}
pub mod as_ref {
    #[::entrait::entrait(delegate_by = ref)]
    pub trait AsRef {
        fn one(&self) -> u8;
    }
}
pub mod sync_trait {
    #[::entrait::entrait(SyncImpl, delegate_by = ref, unimock = false)]
    pub trait Sync {
        fn one(&self) -> u8;
    }
}
pub mod impl_named {
    #[::entrait::entrait(Impl)]
    fn an_impl<D>(deps: &D) {}
}
