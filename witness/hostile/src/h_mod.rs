//! props: C19
crate::decoys!();

#[::entrait::entrait(pub M)]
pub mod m {
    pub fn f<D>(deps: &D, a: u8) -> u8 {
        a
    }
    pub async fn g<D>(deps: &D, a: u8) -> u8 {
        a
    }
    pub fn by_value<D: ::core::clone::Clone>(deps: D) {}
}
#[::entrait::entrait(Private)]
mod private {
    pub fn h<D>(deps: &D) {}
}
