//! props: C19
//! An impl block naming the delegation-target trait by an ABSOLUTE path (`::this_crate::..`) in a scope
//! that defines an item named like the crate: the generated trait impl must keep the leading `::`.
crate::decoys!();
pub mod wit_hostile {
    pub mod h_impl_abs {}
}

#[::entrait::entrait(AbsImpl, delegate_by = DelegateAbs)]
pub trait Abs {
    fn one(&self, a: u8) -> u8;
}
pub struct AbsTarget;
#[::entrait::entrait]
impl ::wit_hostile::h_impl_abs::AbsImpl for AbsTarget {
    fn one<D>(deps: &D, a: u8) -> u8 {
        a
    }
}
#[::entrait::entrait(AbsDynImpl, delegate_by = ref)]
pub trait AbsDyn {
    fn one(&self, a: u8) -> u8;
}
pub struct AbsDynTarget;
#[::entrait::entrait(ref)]
impl ::wit_hostile::h_impl_abs::AbsDynImpl for AbsDynTarget {
    fn one<D>(deps: &D, a: u8) -> u8 {
        a
    }
}
