//! props: C19
//! async_trait below entrait. async_trait's own expansion refers to `Box`, `Pin`, `Send` and `Future`
//! by their prelude names, so those decoys are left out here (that hygiene is async_trait's, not entrait's).
extern crate alloc;
use alloc::boxed::Box;
pub struct Impl;
pub struct Unimock;
#[cfg(not(feature = "unimock"))]
pub trait Sync {}
pub trait AsRef<X> {}
pub trait Borrow<X> {}
pub mod entrait {}
pub mod convert {}
pub mod borrow {}
pub mod marker {}

#[::entrait::entrait(delegate_by = ref)]
#[::async_trait::async_trait]
pub trait AsyncByRef {
    async fn one(&self, a: u8) -> u8;
}
#[::entrait::entrait(AsyncDynImpl, delegate_by = ref)]
#[::async_trait::async_trait]
pub trait AsyncDyn {
    async fn one(&self, a: u8) -> u8;
}
pub struct AsyncDynTarget;
#[::entrait::entrait(ref)]
#[::async_trait::async_trait]
impl AsyncDynImpl for AsyncDynTarget {
    async fn one<D>(deps: &D, a: u8) -> u8 {
        a
    }
}
