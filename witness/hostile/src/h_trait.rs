//! props: C19
crate::decoys!();

#[::entrait::entrait]
pub trait Plain {
    fn one(&self, a: u8) -> u8;
    async fn two(&self, a: u8) -> u8;
}
#[::entrait::entrait(?Send)]
pub trait PlainNoSend {
    async fn two(&self, a: u8) -> u8;
}
#[::entrait::entrait(delegate_by = ref)]
pub trait ByRef {
    fn one(&self, a: u8) -> u8;
}
#[::entrait::entrait(delegate_by = Borrow)]
pub trait ByBorrow {
    fn one(&self, a: u8) -> u8;
}
#[::entrait::entrait(StaticImpl, delegate_by = DelegateStatic)]
pub trait Static {
    fn one(&self, a: u8) -> u8;
    async fn two(&self, a: u8) -> u8;
}
#[::entrait::entrait(DynImpl, delegate_by = ref)]
pub trait Dyn {
    fn one(&self, a: u8) -> u8;
}
#[::entrait::entrait(DynBorrowImpl, delegate_by = Borrow)]
pub trait DynBorrow {
    fn one(&self, a: u8) -> u8;
}
